#!/bin/bash
# setup_cmd: nothing to build (pure Python harness, no third-party deps); sanity-check the interpreter
# and that the repository under observation is importable from /repo's working tree.
set -e
cd "$(dirname "$0")"
mkdir -p evidence replays
export PYTHONPATH="$PWD:${VERIF_REPO:-/repo}" PYTHONDONTWRITEBYTECODE=1
"${VERIF_PYTHON:-/venv/bin/python}" - <<'PY'
import sys
from vp.common import repo_guard
print("python", sys.version.split()[0], "observing", repo_guard())
import pyparsing, fixedint
from vp.refmodels import selfcheck
selfcheck.main()
PY
