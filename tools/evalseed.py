#!/usr/bin/env python3
"""Confirm a seeded change and record it under /verif/seeded/<id>/ :

  tools/evalseed.py --id C07-A --prop C07 --patch /tmp/seed/C07/out/mutA.diff --demo /tmp/seed/C07/out/demoA.py \
        --needs "..." [--checks C07,C02] [--tier quick] [--also-thorough]

Steps (all on a scratch copy of /repo outside /repo and /verif, removed afterwards):
  1. demo on the pristine tree            -> must PASS (exit 0)
  2. apply patch, full repo test suite    -> must be '242 passed'
  3. demo on the changed tree             -> must FAIL (exit != 0)
  4. run the given checks against the changed tree -> which fire
Writes patch.diff, demo.py, meta.json."""
import argparse, json, os, shutil, subprocess, sys, tempfile, time

ap = argparse.ArgumentParser()
ap.add_argument("--id", required=True)
ap.add_argument("--prop", required=True)
ap.add_argument("--patch", required=True)
ap.add_argument("--demo", required=True)
ap.add_argument("--needs", default="")
ap.add_argument("--checks")
ap.add_argument("--tier", default="quick")
ap.add_argument("--seeds", default="0")
ap.add_argument("--source", default="independent sub-agent given only the property text")
a = ap.parse_args()
VERIF = os.path.dirname(os.path.dirname(os.path.abspath(__file__)))
checks = (a.checks or a.prop).split(",")
tmp = tempfile.mkdtemp(prefix="evalseed-")
meta = {"id": a.id, "property": a.prop, "needs_to_manifest": a.needs, "source": a.source, "ran": []}
try:
    for d in ("architecture_simulator", "tests"):
        shutil.copytree(os.path.join("/repo", d), os.path.join(tmp, d), ignore=shutil.ignore_patterns("__pycache__"))
    shutil.copy("/repo/pyproject.toml", tmp)
    env = dict(os.environ, VERIF_REPO=tmp, PYTHONPATH=tmp, PYTHONDONTWRITEBYTECODE="1")

    def run(cmd, **kw):
        return subprocess.run(cmd, cwd=tmp, env=env, capture_output=True, text=True, **kw)

    r = run(["/venv/bin/python", os.path.abspath(a.demo)], timeout=600)
    meta["demo_on_pristine"] = {"rc": r.returncode, "out": (r.stdout + r.stderr).strip()[-300:]}
    r = subprocess.run(["patch", "-p1", "-s", "-d", tmp, "-i", os.path.abspath(a.patch)], capture_output=True, text=True)
    if r.returncode:
        print("PATCH DOES NOT APPLY", r.stdout, r.stderr)
        sys.exit(3)
    r = run(["/venv/bin/python", "-m", "pytest", "-q", "-p", "no:cacheprovider", "-n", "8", "tests"], timeout=1800)
    last = r.stdout.strip().splitlines()[-1] if r.stdout.strip() else r.stderr[-200:]
    meta["repo_tests_on_changed_tree"] = last
    r = run(["/venv/bin/python", os.path.abspath(a.demo)], timeout=600)
    meta["demo_on_changed_tree"] = {"rc": r.returncode, "out": (r.stdout + r.stderr).strip()[-400:]}
    ok = meta["demo_on_pristine"]["rc"] == 0 and meta["demo_on_changed_tree"]["rc"] != 0 and " passed" in last and "failed" not in last
    meta["confirmed"] = ok
    caught = {}
    for c in checks:
        for seed in a.seeds.split(","):
            t0 = time.time()
            r = subprocess.run([os.path.join(VERIF, "check"), c, "--tier", a.tier, "--seed", seed, "--no-evidence"], env=env, capture_output=True, text=True)
            v = [l for l in r.stdout.splitlines() if l.startswith(("VIOLATION", "INCONCLUSIVE", "HELD"))]
            first = [l.strip() for l in r.stdout.splitlines() if l.startswith("  ") and not l.startswith("  observed") and not l.startswith("  note") and not l.startswith("  states")][:1]
            caught.setdefault(c, []).append({"tier": a.tier, "seed": int(seed), "rc": r.returncode, "verdict": v[0] if v else "?", "first_violation": first[0][:300] if first else "", "wall_s": round(time.time() - t0, 1)})
            meta["ran"].append("VERIF_REPO=<scratch copy with patch> ./check %s --tier %s --seed %s  -> rc=%d" % (c, a.tier, seed, r.returncode))
    meta["checks"] = caught
    meta["caught_by"] = sorted(c for c, rs in caught.items() if any(x["rc"] == 1 for x in rs))
    out = os.path.join(VERIF, "seeded", a.id)
    os.makedirs(out, exist_ok=True)
    for src, dst in ((a.patch, os.path.join(out, "patch.diff")), (a.demo, os.path.join(out, "demo.py"))):
        if os.path.realpath(src) != os.path.realpath(dst):
            shutil.copy(src, dst)
    json.dump(meta, open(os.path.join(out, "meta.json"), "w"), indent=1)
    print("%s confirmed=%s tests=%r demo pristine rc=%d changed rc=%d caught_by=%s" % (a.id, ok, last, meta["demo_on_pristine"]["rc"], meta["demo_on_changed_tree"]["rc"], meta["caught_by"]))
    for c, rs in caught.items():
        for x in rs:
            print("   %s seed=%d rc=%d %s | %s" % (c, x["seed"], x["rc"], x["verdict"][:60], x["first_violation"][:200]))
finally:
    shutil.rmtree(tmp, ignore_errors=True)
