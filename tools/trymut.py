#!/usr/bin/env python3
"""Self-test helper: apply a textual mutation (or a patch file) to a scratch copy of /repo's package
(outside /repo and /verif), run the given checks against it, report which fire; optionally run the
repository's own tests on the mutant first.

  tools/trymut.py [--tests] [--tier quick] --checks C02,C07 (--patch file.diff | <relpath> <old> <new>)
"""
import argparse, os, shutil, subprocess, sys, tempfile

ap = argparse.ArgumentParser()
ap.add_argument("--checks", required=True)
ap.add_argument("--tests", action="store_true")
ap.add_argument("--tier", default="quick")
ap.add_argument("--seed", default="0")
ap.add_argument("--patch")
ap.add_argument("edit", nargs="*")
a = ap.parse_args()
VERIF = os.path.dirname(os.path.dirname(os.path.abspath(__file__)))
tmp = tempfile.mkdtemp(prefix="mut-")
try:
    for d in ("architecture_simulator", "tests"):
        shutil.copytree(os.path.join("/repo", d), os.path.join(tmp, d), ignore=shutil.ignore_patterns("__pycache__"))
    for f in ("pyproject.toml",):
        shutil.copy(os.path.join("/repo", f), tmp)
    if a.patch:
        subprocess.check_call(["patch", "-p1", "-s", "-d", tmp, "-i", os.path.abspath(a.patch)])
    else:
        rel, old, new = a.edit
        p = os.path.join(tmp, rel)
        s = open(p).read()
        if s.count(old) != 1:
            print("MUTATION SITE count =", s.count(old)); sys.exit(3)
        open(p, "w").write(s.replace(old, new))
    env = dict(os.environ, VERIF_REPO=tmp, PYTHONPATH=tmp, PYTHONDONTWRITEBYTECODE="1")
    if a.tests:
        r = subprocess.run(["/venv/bin/python", "-m", "pytest", "-q", "-x", "-p", "no:cacheprovider", "-n", "8", "tests"], cwd=tmp, env=env, capture_output=True, text=True)
        print("repo tests on mutant:", r.stdout.strip().splitlines()[-1] if r.stdout.strip() else r.stderr[-300:])
    for c in a.checks.split(","):
        r = subprocess.run([os.path.join(VERIF, "check"), c, "--tier", a.tier, "--seed", a.seed, "--no-evidence"], env=env, capture_output=True, text=True)
        lines = [l for l in r.stdout.splitlines() if not l.startswith("  observed")]
        v = [l for l in lines if l.startswith("VIOLATION") or l.startswith("INCONCLUSIVE") or l.startswith("HELD")]
        first = [l for l in lines if l.startswith("  ") and ":" in l][:2]
        print("%s rc=%d %s" % (c, r.returncode, (v[0] if v else "?")), "|", (first[0][:260] if first else ""))
finally:
    shutil.rmtree(tmp, ignore_errors=True)
