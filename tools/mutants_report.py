#!/usr/bin/env python3
"""Summarise mutation/results.jsonl (written by tools/mutants.py) into mutation/SUMMARY.md.

Survivors are classified by mutation/triage.json (hand-written: "<file>:<line>:<op>:<detail>" or a substring of the
mutated line -> [category, reason]) and by a few patterns for code no property speaks about (visualisation
directives, performance-metrics text, defaults of disabled features)."""
import collections, json, os, sys

VERIF = os.path.dirname(os.path.dirname(os.path.abspath(__file__)))
R = [json.loads(l) for l in open(os.path.join(VERIF, "mutation", "results.jsonl"))]
if os.path.exists(os.path.join(VERIF, "mutation", "results3.jsonl")):  # campaign 3 (operators delctl, argswap, dropkw, dropwrap)
    R += [json.loads(l) for l in open(os.path.join(VERIF, "mutation", "results3.jsonl"))]
TRI = json.load(open(os.path.join(VERIF, "mutation", "triage.json"))) if os.path.exists(os.path.join(VERIF, "mutation", "triage.json")) else {}
PATTERNS = [
    (("do_highlight", ".do_show", "result.", "Svg", "svg", "control_unit_values", "ControlUnitSignals("), "out of scope", "visualisation directive / control-signal display value: no property claims what the data-path picture highlights (C16/C20 only demand that twins agree)"),
    (("representation +=", "representation -=", "instructions_per_second", "execution_time", "stop_timer", "start_timer", "instruction_count == 0", "instruction_count != 0", "instruction_count == 1"), "out of scope", "performance-metrics text / wall-clock timer"),
    (("_settings = {",), "out of scope", "default of a disabled cache / UI setting"),
    (("privilege_level", "level < 0", "level > 3", "level >", "level <"), "out of scope", "CSR privilege level (CSR instructions are outside every property)"),
    (("register_name", "abi_names"), "out of scope", "ABI-name column of the register table (C17 speaks about the value strings)"),
    (("self.hits += hit",), "equivalent", "bool adds like int"),
    (("ByteOffsetError(decoded_address.byte_offset,", "self.max_offset = max", "byte{("), "out of scope", "text of the ByteOffsetError message"),
]


def key(r):
    return "%s:%s:%s:%s" % (r["file"].split("/")[-1], r.get("line"), r["site"][1], r["site"][2])


def classify(r):
    k = key(r)
    if k in TRI:
        return TRI[k]
    old = r["diff"][0]["old"] if r.get("diff") else ""
    new = r["diff"][0]["new"] if r.get("diff") else ""
    for sub, v in TRI.items():
        if ":" not in sub and sub in old:
            return v
    for pats, cat, why in PATTERNS:
        if any(p in old or p in new for p in pats):
            return [cat, why]
    return ["untriaged", ""]


by_status = collections.Counter(r["status"] for r in R)
by_file = collections.defaultdict(collections.Counter)
caught_by = collections.Counter()
for r in R:
    by_file[r["file"].split("/")[-1]][r["status"]] += 1
    if r["status"] == "caught":
        caught_by[r["caught_by"]] += 1
passing = [r for r in R if r["status"] in ("caught", "survived", "inconclusive")]
out = []
out.append("# Mutation self-audit of the monitors (tools/mutants.py)\n")
out.append("%d first-order mutants sampled from %d anchor files; %d rejected by the repository's own 242 tests (not interesting: the brief asks for changes that pass them); **%d pass the tests**, of these %d are reported by a check anchored in the mutated file (quick tier, seed 0), %d end inconclusive (the monitors could not observe: a public representation they read is broken, or the mutant makes runs so slow that the shard watchdog fires) and %d are reported by no anchored check.\n" % (len(R), len(by_file), by_status["killed_by_tests"], len(passing), by_status["caught"], by_status["inconclusive"], by_status["survived"]))
surv = [r for r in R if r["status"] == "survived"]
cats = collections.Counter(classify(r)[0] for r in surv)
out.append("Survivors by triage: " + ", ".join("%s: %d" % kv for kv in cats.most_common()) + ".\n")
out.append("Caught mutants by first reporting check: " + ", ".join("%s %d" % kv for kv in sorted(caught_by.items())) + ".\n")
out.append("\n| file | mutants | killed by tests | caught | inconclusive | survived |\n|---|---|---|---|---|---|")
for f in sorted(by_file):
    c = by_file[f]
    out.append("| %s | %d | %d | %d | %d | %d |" % (f, sum(c.values()), c["killed_by_tests"], c["caught"], c["inconclusive"], c["survived"]))
out.append("\n## Survivors\n")
out.append("| where | mutation | triage | reason |\n|---|---|---|---|")
for r in sorted(surv, key=lambda r: (classify(r)[0], r["file"], r.get("line") or 0)):
    d = r["diff"][0] if r.get("diff") else {"old": "?", "new": "?"}
    cat, why = classify(r)
    out.append("| %s:%s | `%s` -> `%s` | %s | %s |" % (r["file"].split("/")[-1], r.get("line"), d["old"][:90].replace("|", "\\|"), d["new"][:90].replace("|", "\\|"), cat, why))
out.append("\n## Inconclusive\n")
for r in R:
    if r["status"] == "inconclusive":
        d = r["diff"][0] if r.get("diff") else {"old": "?", "new": "?"}
        out.append("* %s:%s `%s` -> `%s` %s" % (r["file"].split("/")[-1], r.get("line"), d["old"][:90], d["new"][:90], {c: v["rc"] for c, v in r["checks"].items()}))
open(os.path.join(VERIF, "mutation", "SUMMARY.md"), "w").write("\n".join(out) + "\n")
print("\n".join(out[:6]))
print("untriaged survivors:", cats["untriaged"])
if "--untriaged" in sys.argv:
    for r in surv:
        if classify(r)[0] == "untriaged":
            d = r["diff"][0] if r.get("diff") else {"old": "?", "new": "?"}
            print(key(r), "|", d["old"][:130], "=>", d["new"][:130])
