ENGINES = [
    {"name": "isa", "path": "vp/engines/isa.py", "serves_properties": ["C01"], "kind_free_text": "lockstep monitor: real single-cycle simulation vs. sequential RV32IM reference after every step"},
    {"name": "pipe", "path": "vp/engines/pipe.py", "serves_properties": ["C02", "C07", "C08"], "kind_free_text": "event-log monitors on the real five-stage pipeline (retire log, per-step register file, store/output logs, cycle conservation) vs. a timestamp model of the documented schedule; three-way final comparison"},
    {"name": "cache", "path": "vp/engines/cache.py", "serves_properties": ["C03", "C09", "C12", "C10"], "kind_free_text": "history monitors on the real cached MemorySystem: values vs. flat memory, counters/resident tags vs. tag-only reference cache, write-policy invariant after every operation; explicit-state BFS on the real objects; programs with/without cache in both modes"},
    {"name": "policy", "path": "vp/engines/policy.py", "serves_properties": ["C10"], "kind_free_text": "exhaustive exploration of the reachable LRU/PLRU state space on the real objects with a reference policy stepped alongside"},
    {"name": "icache", "path": "vp/engines/icache.py", "serves_properties": ["C11"], "kind_free_text": "fetch-log monitor (wrapper on read_instruction), reference cache replaying the observed fetch addresses, reset/reload sequences"},
    {"name": "asmrv", "path": "vp/engines/asmrv.py", "serves_properties": ["C04", "C05", "C14"], "kind_free_text": "assembler oracle: AST with semantics -> expected listing/data image; pseudo-instructions judged by effect; metamorphic renderings; print/parse round trips"},
    {"name": "errors", "path": "vp/engines/errors.py", "serves_properties": ["C15"], "kind_free_text": "outcome classifier on every load_program()/step(): exception type, line number, address, printed form; fault-injected texts and token soups"},
    {"name": "toy", "path": "vp/engines/toy.py", "serves_properties": ["C06", "C19", "C20"], "kind_free_text": "lockstep monitor vs. reference accumulator machine; exhaustive 2^16 decode/encode; AST-based TOY assembler oracle; twin-object monitor for half-cycle stepping with a 2-state legality automaton"},
    {"name": "lifecycle", "path": "vp/engines/lifecycle.py", "serves_properties": ["C13", "C16"], "kind_free_text": "twin-object monitors on the Simulation API compared on the observable snapshot and on continuation"},
    {"name": "fmt", "path": "vp/engines/fmt.py", "serves_properties": ["C17"], "kind_free_text": "wrapper on the number formatter checking every call, exhaustive 12/16-bit sweeps, table monitors with a shadow of written addresses"},
    {"name": "mem", "path": "vp/engines/mem.py", "serves_properties": ["C18"], "kind_free_text": "access-history monitor on the real flat memories vs. a byte-dict reference"},
]

_T = "runtime monitoring: "
CHECKS = {
    "C01": {
        "engine": "isa", "ref": "DESIGN.md section 4, C01", "technique": _T + "lockstep reference-model monitor on RiscvSimulation.step()",
        "text": "Every generated single instruction (all 46 supported mnemonics x 9 register-aliasing patterns x boundary/random operands and immediates, at instruction addresses incl. 0 and the last slot) and every generated program is executed by the real single-cycle simulator while an independent sequential RV32IM reference is stepped alongside; registers, pc, output, exit code, done-ness and touched memory are compared after EVERY step, faults must be reported at the same address with unchanged state. Held on the executions observed; the 2^64 operand space is sampled (boundary classes x random), not closed - exploration is the honest level for a universal claim over operands.",
        "note": "Trusted base: vp/refmodels/rv32.py (written from the RISC-V spec and the documented ecall table; no code shared with the repository). pc compared mod 2^32; memory compared outside the faulting footprint on a fault.",
    },
    "C02": {
        "engine": "pipe", "ref": "DESIGN.md section 4, C02", "technique": _T + "retire/store/output event logs and per-step register-file monitor vs. golden trace; three-way final-state comparison",
        "text": "All instruction sequences up to length 3 (quick) / 5 (thorough) over a 14-symbol hazard-complete alphabet x 3 initial register files (small-scope exhaustive), plus random soup/structured programs and a directed hazard corpus, run on the real five-stage pipeline with hazard detection on. Monitors: address retired in every step must follow the golden order; the register file after every step must equal the reference's register file at that cycle (catches transient wrong-path writes); stores and output must appear in golden order exactly once; faults must carry the golden address with identical registers/memory/output; final registers, memory, output, exit code and counters are compared three-way (five-stage, real single-cycle, sequential reference). Held on what was observed.",
        "note": "Trusted base: vp/refmodels/rv32.py + vp/refmodels/timed5.py (self-checked against each other on every program). Programs are bounded; non-terminating programs are compared on the simulated prefix.",
    },
    "C07": {
        "engine": "pipe", "ref": "DESIGN.md section 4, C07", "technique": _T + "retire-cycle log vs. timestamp model of the documented schedule; per-step cycle/penalty conservation",
        "text": "For the same enumerated and random programs the step in which each instruction retires and the total step count must equal the timestamp recurrence of the documented schedule (one fetch per cycle, no forwarding, write-before-read, 2-bubble decode interlock for the two preceding producers, redirect the cycle after MEM, ecall drained in EX); independent straight-line programs are also checked against the closed form n+4; with random data/instruction cache configurations every step must advance the cycle counter by exactly 1 + (miss penalties of the misses observed in that step).",
        "note": "Trusted base: vp/refmodels/timed5.py, calibrated on the unchanged tree; 'in stage X' read in the GUI convention (instruction sits in X's output latch after the step). The stalls/flushes counters themselves are not part of the claim.",
    },
    "C08": {
        "engine": "pipe", "ref": "DESIGN.md section 4, C08", "technique": _T + "same event-log monitors against the interlock-free timed reference; nop-padding metamorphic check",
        "text": "The C02 programs run with hazard detection disabled must match the interlock-free timed reference step by step (stale operand reads included: registers per step, retire order and cycle, stores, output, totals); the stalls counter must equal the number of ecall waits the reference predicts (a decode stall would add to it) and the pipeline must never report a decode-stage stall; programs padded with two nops behind every instruction must equal sequential semantics.",
        "note": "Trusted base: vp/refmodels/timed5.py (interlock=False). The stall-counter prediction skips programs with taken-to-fallthrough branches (ambiguous wrong path).",
    },
    "C03": {
        "engine": "cache", "ref": "DESIGN.md section 4, C03", "technique": _T + "value monitor on every read of the cached MemorySystem vs. flat memory; explicit-state BFS on the real objects; cache on/off differential on programs",
        "text": "Random geometries (index bits 0-4, block bits 0-3, 1-8 ways / PLRU 1-16, WB/WT, LRU/PLRU, penalties) with a conflict-heavy address universe: every read result is compared with a flat byte store, every word-crossing access must raise ByteOffsetError, after a rejected access the whole universe is read back and must be unchanged; explicit-state breadth-first exploration (depth 4 quick / 6 thorough) of ten tiny geometries on the real objects; programs are run with and without data cache in both pipeline modes and must agree in registers, output, exit code and logical memory. One open known finding (K1, huge blocks) is reported as KNOWN-FINDING.",
        "note": "Trusted base: FlatMem in vp/refmodels/refcache.py. A rejected access may touch cache state/counters; only stored values are judged (DESIGN 5-r3).",
    },
    "C09": {
        "engine": "cache", "ref": "DESIGN.md section 4, C09", "technique": _T + "counter monitor after every accepted access vs. tag-only reference cache; program-level stats differential between modes and golden trace",
        "text": "Histories of accepted accesses only: after every operation (hits, accesses, last_hit) and the cycle counter must equal those of a tag-only reference cache with the configured geometry, write policy and replacement policy; uncounted reads and parser-style preloads must leave counters untouched; for programs the data-cache counters must be identical in single-cycle and five-stage mode, equal to the reference cache fed the golden access sequence, and accesses must equal golden loads+stores.",
        "note": "Trusted base: vp/refmodels/refcache.py + policies.py. Uncounted reads are modelled as state-changing, counter-neutral accesses (what the code documents).",
    },
    "C12": {
        "engine": "cache", "ref": "DESIGN.md section 4, C12", "technique": _T + "state-invariant hook evaluated at the quiescent point after every operation (public cache_repr() + backing Memory)",
        "text": "After every operation of the C03 histories and of every BFS transition the write-policy invariant is evaluated over the whole address universe: write-through - backing word == logical word and every resident word == backing word; write-back - a non-resident word's backing value == logical value, a resident word's cached value == logical value (no written value is ever lost by an eviction).",
        "note": "Resident blocks are observed through the public cache_repr(); the backing store through the lower Memory's public read_word.",
    },
    "C10": {
        "engine": "policy", "ref": "DESIGN.md section 4, C10", "technique": _T + "exhaustive reachable-state exploration of the real policy objects with a reference policy stepped alongside; way-level resident-tag monitor in cache histories",
        "text": "Every reachable state (identity = public get_repr()) x every access(i) for LRU with 1..5 (quick) / 1..8 (thorough) ways and PLRU with 1..8 / 1..16 ways is executed on the real objects (branching by deepcopy): victim, LRU age order and idempotence of a repeated access are compared with timestamp-LRU / explicit-tree-PLRU references - exhaustive for those associativities; larger associativities are sampled by random histories; in cache-level histories the resident tag of every way is compared with the reference after every access, which pins the way a fill displaces.",
        "note": "Associativities above the bound are only sampled. LRU get_repr() is judged by the order it induces (ascending = oldest first).",
    },
    "C11": {
        "engine": "icache", "ref": "DESIGN.md section 4, C11", "technique": _T + "fetch-log monitor on read_instruction + reference cache replaying the observed fetch addresses; reset/reload sequences",
        "text": "Random I-cache geometries/policies/penalties x programs (loops smaller and larger than the cache, jumps into the middle of a block, blocks reaching past the program end) in both modes: every fetch must return the very instruction object installed at that address, program results must equal the uncached/sequential result, the access counter must equal the number of observed fetches (= executed instructions in single-cycle mode), the hit counter must equal a reference cache fed the observed fetch addresses, each step's cycle increment must equal 1 + penalty x new misses; after reset()+reload (memory-system level) and load_program of a second program (simulation level) counters are zero, no block is valid and fetches return the new program.",
        "note": "Five-stage fetches include wrong-path and refetched instructions; they count by definition (reference is fed the observed addresses).",
    },
    "C04": {
        "engine": "asmrv", "ref": "DESIGN.md section 4, C04", "technique": _T + "assembler output monitor vs. AST-with-semantics oracle; pseudo-instructions judged by executing the emitted group on the reference interpreter; metamorphic renderings",
        "text": "Program ASTs generated from the documented grammar (all real formats, all pseudo forms, stand-alone and in-line labels incl. on expanding pseudo-instructions, several labels per address, label at end of program, forward/backward references, label+0xoff, numeric targets) are rendered into several independent spellings (ABI/xN names, mnemonic case, decimal/hex/binary/negative literals, comments, blank lines, indentation, segment order) and loaded; the listing must occupy consecutive 4-byte slots from 0 and equal, field by field, the instructions the AST denotes; each pseudo statement's group (as assembled alone) must reappear wherever it occurs and must have exactly the documented effect when executed; all renderings must give identical instruction memory.",
        "note": "Generator scope bounds of DESIGN 5-r6 (documentation is silent there). Immediates compared modulo their encoding width.",
    },
    "C05": {
        "engine": "asmrv", "ref": "DESIGN.md section 4, C05", "technique": _T + "data-image and register monitors after load_program/run vs. AST layout oracle; li constant sweep",
        "text": "Random data segments (all five directives, 1-9 elements, negative and out-of-range literals) are compared byte by byte (plus guard bytes) with the layout computed from the AST, in both segment orders; name[i] is observed by running la/load/store-by-name programs on the real simulator and comparing registers and memory with the documented effect; li is run for every low-12-bit pattern x 6 boundary high parts (x 4 spellings in the thorough tier) plus random constants; the documented example program must produce the values its stated semantics give.",
        "note": "t0 may be clobbered by load-by-name (documented). The help page's comment \"x6 = '!'\" is a documentation off-by-one (index 11 of the string is 'd') and is deliberately not asserted.",
    },
    "C14": {
        "engine": "asmrv", "ref": "DESIGN.md section 4, C14", "technique": _T + "print/parse round-trip monitor on repr(instruction) and on program listings",
        "text": "Every mnemonic of the instruction map except FENCE is constructed directly with all 32 register numbers in every operand position and boundary+random immediates, at varying addresses; its printed text is re-assembled at the same address and class and all fields must be identical; the printed listing of every generated program must re-assemble to the same listing.",
        "note": "FENCE excluded (no operand syntax implemented, as the property states).",
    },
    "C15": {
        "engine": "errors", "ref": "DESIGN.md section 4, C15", "technique": _T + "outcome classifier on every load_program()/step() call over fault-injected texts, token soups and faulting programs",
        "text": "AST-generated RISC-V and TOY programs with 1-3 injected lexical/structural faults (35 hostile numeric literals in every literal position, unknown labels/variables/directives, duplicated or misplaced segments, declarations in .text, instructions in .data, dropped commas, truncated lines, odd characters, over-long programs, huge .zero) and token soups are loaded; any outcome other than success, a ParserException subclass with 1 <= line_number <= number of lines, MemorySizeException or MemoryAddressError is a violation; faulting programs in both modes must raise InstructionExecutionException whose address is the reference's faulting address and whose instruction_repr is the printed form of that instruction.",
        "note": "'Loading always terminates' is restated as 'returns within a 20 s watchdog per text' (firing = inconclusive, never a violation).",
    },
    "C06": {
        "engine": "toy", "ref": "DESIGN.md section 4, C06", "technique": _T + "lockstep reference-model monitor on ToySimulation.step()",
        "text": "Every one of the 65536 instruction words is placed behind an assembled NOP (so it passes the real fetch/decode) with boundary accumulator/operand combinations (1 combination quick, 20 thorough) and random self-modifying programs (stores into the program area, BRZ beyond the end and to 4095, opcode aliases 13-15, a full 4096-instruction program for pc wrap) are stepped in lockstep with a reference accumulator machine; accu, pc, every memory word, instruction/cycle/branch counters and done-ness are compared after every step.",
        "note": "Trusted base: vp/refmodels/toy.py written from the TOY help page. The displayed pc runs one ahead of the address executed next.",
    },
    "C19": {
        "engine": "toy", "ref": "DESIGN.md section 4, C19", "technique": _T + "exhaustive decode/encode round trip; TOY assembler image monitor vs. AST oracle",
        "text": "All 2^16 words are decoded and re-encoded (mnemonic per opcode table, opcodes 13-15 = NOP, address field, equality after round trip) and all assembler-constructible instructions are encoded and decoded - exhaustive; grammar-generated sources (labels stand-alone/in-line, data before/after text, arrays, forward references, decimal/hex operands, mixed case, comments) are loaded and the memory image and max_pc compared word by word with the AST's image; the documented example programs are run to completion and must compute the documented results.",
        "note": "Image computed from the generator's AST, never by parsing text.",
    },
    "C20": {
        "engine": "toy", "ref": "DESIGN.md section 4, C20", "technique": _T + "twin-object monitor with a 2-state legality automaton over random call strings",
        "text": "C06 programs are driven by random call strings over {step, first_cycle_step, second_cycle_step, single_step, run} with ~25% illegal calls; a twin driven by step() only is compared at every instruction boundary on the full observable snapshot (state, counters, memory-table markers, visualisation values, register representations); every illegal call must raise StepSequenceError and leave the snapshot unchanged; every call after done must be a no-op.",
        "note": "run() is only issued when the reference machine says the program terminates.",
    },
    "C13": {
        "engine": "lifecycle", "ref": "DESIGN.md section 4, C13", "technique": _T + "twin-object monitors on step/run/load_program compared on the observable snapshot and on continuation",
        "text": "Single-cycle, five-stage (random cache configurations, hazard flag) and TOY simulations x programs ending by fall-through, jump outside, exit ecall with younger instructions in flight, or empty text x load histories of 0-5 earlier well-formed and malformed loads: a twin loaded after the history must equal a fresh twin in snapshot and in every later step; step() must return not is_done(); a run() twin must end in the same snapshot as the step loop; after done, further step()/run() (and TOY half-cycle) calls must leave the snapshot unchanged; an empty program must be done immediately.",
        "note": "'Same state' = observable snapshot (all public inspection results, wall-clock lines removed) + continuation; private attributes are not compared.",
    },
    "C16": {
        "engine": "lifecycle", "ref": "DESIGN.md section 4, C16 (+ section 9)", "technique": _T + "twin-object monitor: inspected twin vs. never-inspected twin (deepcopy inspected at comparison points, independent random call orders)",
        "text": "Twin A calls random subsets and repetitions of all 13 (TOY: 6) inspection functions between steps (TOY also between half cycles); twin B is never inspected: at comparison points (every step, every k-th step, or only at the end) a deepcopy of B is inspected and compared with A on the full snapshot, the two snapshots calling the inspection functions in independent random orders, so an inspection that changes its own later result, another inspection's result or later behaviour is observed; both RISC-V modes x random D/I cache configurations (LRU and PLRU, conflict-heavy) x hazard flag, and TOY.",
        "note": "Idempotent-but-impure inspections and order dependencies between inspection functions are caught because B itself is never inspected.",
    },
    "C17": {
        "engine": "fmt", "ref": "DESIGN.md section 4, C17", "technique": _T + "wrapper on the formatter checking every call; exhaustive 12/16-bit sweeps; table monitors with a shadow of written addresses",
        "text": "The four strings of every formatter result are parsed back and must denote value mod 2^n in two's complement with the documented width and grouping: exhaustively for every integer in [-2^n, 2^(n+1)) with n = 12 and 16, boundary+random for n = 32, and for EVERY call the simulator makes during the table workloads (wrapper); after every step of random RISC-V programs (both modes, with and without data cache) and TOY programs the register table, data-memory table, TOY memory table and TOY register representations are checked: rows exactly the words containing a written byte (shadow maintained from the backing Memory's public write calls), ascending, true addresses, values equal to the backing store.",
        "note": "Bytes of a faulting straddling write are treated as 'either' in the shadow.",
    },
    "C18": {
        "engine": "mem", "ref": "DESIGN.md section 4, C18", "technique": _T + "access-history monitor on the real Memory objects vs. byte-dict reference",
        "text": "Histories of reads/writes of width 1/2/4/8 at aligned/unaligned addresses around 2^14, 2^32, 0, negative and >= 2^32 spellings with overlapping writes of different widths on the data memory built by RiscvArchitecturalState, and 16/32/64-bit accesses around 0 and 4095/4096 on the TOY memory: every read, every raised / not raised MemoryAddressError and the whole image are compared with a flat little-endian reference after each operation; accesses entirely outside the range must change nothing.",
        "note": "A straddling write may leave its in-range bytes written or not; each must hold the old or new value and the reference re-synchronises on exactly those bytes.",
    },
}
NOT_APPLICABLE = []
