ENGINES = [
    {"name": "isa", "path": "vp/engines/isa.py", "serves_properties": ["C01"], "kind_free_text": "lockstep monitor: real single-cycle simulation vs. sequential RV32IM reference after every step"},
]
CHECKS = {
    "C01": {
        "engine": "isa",
        "ref": "DESIGN.md section 4, C01",
        "technique": "runtime monitoring: lockstep reference-model monitor on RiscvSimulation.step()",
        "text": "Every generated single instruction (all 46 supported mnemonics x register aliasing patterns x boundary/random operands and immediates) and every generated program is executed by the real single-cycle simulator while an independent sequential RV32IM reference is stepped alongside; registers, pc, output, exit code, done-ness and touched memory are compared after every step, faults must be reported at the same address with unchanged state. Held on the executions observed; the operand space is sampled, not closed.",
        "note": "Trusted base: vp/refmodels/rv32.py (written from the RISC-V spec and the documented ecall table; no code shared with the repository). pc compared mod 2^32; memory compared outside the faulting footprint on a fault.",
    },
}
_PENDING = "check not built yet in this revision of /verif (engine under construction; see DESIGN.md section 4)"
NOT_APPLICABLE = [{"property_id": "C%02d" % i, "reason": _PENDING} for i in range(1, 21) if "C%02d" % i not in CHECKS]
