#!/usr/bin/env python3
"""prints the markdown table of seeded changes from seeded/*/meta.json; --write replaces the block in DESIGN.md"""
import glob, json, os, sys

VERIF = os.path.dirname(os.path.dirname(os.path.abspath(__file__)))
rows = ["| id | breaks | needs to manifest | confirmed | caught by (quick tier) |", "|----|--------|-------------------|-----------|------------------------|"]
for f in sorted(glob.glob(os.path.join(VERIF, "seeded", "*", "meta.json"))):
    m = json.load(open(f))
    rows.append("| %s | %s | %s | %s | %s |" % (m["id"], m["property"], m["needs_to_manifest"].replace("|", "/"), "yes" if m.get("confirmed") else "NO", ", ".join(m.get("caught_by", [])) or "**missed**"))
table = "\n".join(rows)
if "--write" in sys.argv:
    p = os.path.join(VERIF, "DESIGN.md")
    s = open(p).read()
    b, e = "<!-- SEEDTABLE BEGIN -->", "<!-- SEEDTABLE END -->"
    if "@SEEDTABLE@" in s:
        s = s.replace("@SEEDTABLE@", b + "\n" + table + "\n" + e)
    else:
        s = s[: s.index(b)] + b + "\n" + table + "\n" + s[s.index(e) :]
    open(p, "w").write(s)
else:
    print(table)
