#!/usr/bin/env python3
"""Systematic self-audit of the monitors: first-order syntactic mutants of the repository's anchor files.

For every sampled mutant (one AST edit in one file of a scratch copy of /repo's package - never /repo itself):
  1. the repository's own test suite runs on the mutated copy; a mutant the 242 tests reject is uninteresting
     ("killed_by_tests") - the brief asks for changes that still pass the existing tests;
  2. otherwise the quick tier of every check whose property is anchored in that file runs against the copy
     (VERIF_REPO=<copy>), stopping at the first check that reports a VIOLATION ("caught", with the check and its
     first violation line);
  3. a mutant no anchored check reports is a "survivor": either an equivalent / out-of-scope edit or a blind spot
     of the monitors - survivors are triaged by hand (mutation/TRIAGE.md) and blind spots are closed.

  tools/mutants.py --list                          # count mutation sites per file
  tools/mutants.py --per-file 40 --jobs 7 --out mutation/results.jsonl [--files a.py,b.py] [--seed 0] [--resume]
  tools/mutants.py --one <file>:<index>  [--show]  # evaluate / print a single mutant
Nothing is kept under /tmp; the scratch copy of each mutant is removed as soon as it is decided."""
import argparse, ast, concurrent.futures as cf, copy, json, os, random, shutil, subprocess, sys, tempfile, time

VERIF = os.path.dirname(os.path.dirname(os.path.abspath(__file__)))
REPO = "/repo"
NEWOPS = bool(os.environ.get("MUT_NEWOPS"))  # campaign 3 operators (delctl, argswap, dropkw, dropwrap); off = the site list of campaigns 1-2
WRAPPERS = {"UInt32", "Int32", "UInt16", "Int16", "UInt8", "Int8", "UInt64", "Int64", "int", "MutableUInt32", "abs"}
CMP = {ast.Lt: ast.LtE, ast.LtE: ast.Lt, ast.Gt: ast.GtE, ast.GtE: ast.Gt, ast.Eq: ast.NotEq, ast.NotEq: ast.Eq, ast.Is: ast.IsNot, ast.IsNot: ast.Is, ast.In: ast.NotIn, ast.NotIn: ast.In}
BIN = {ast.Add: ast.Sub, ast.Sub: ast.Add, ast.Mult: ast.FloorDiv, ast.FloorDiv: ast.Mult, ast.Mod: ast.FloorDiv, ast.LShift: ast.RShift, ast.RShift: ast.LShift, ast.BitAnd: ast.BitOr, ast.BitOr: ast.BitAnd, ast.BitXor: ast.BitAnd, ast.Pow: ast.Mult}


def anchors():
    m = {}
    for l in open(os.path.join(VERIF, "properties.jsonl")):
        d = json.loads(l)
        for f in d["anchors"]["files"]:
            m.setdefault(f, []).append(d["id"])
    m.pop("architecture_simulator/gui/webgui.py", None)  # needs a browser runtime (pyodide); not importable here
    return m


def sites(tree):
    """deterministic list of (walk index, operator name, detail) for every mutation site"""
    out = []
    parents = {}
    for n in ast.walk(tree):
        for c in ast.iter_child_nodes(n):
            parents[c] = n
    doc = set()
    for n in ast.walk(tree):
        if isinstance(n, (ast.FunctionDef, ast.ClassDef, ast.Module, ast.AsyncFunctionDef)) and n.body and isinstance(n.body[0], ast.Expr) and isinstance(n.body[0].value, ast.Constant) and isinstance(n.body[0].value.value, str):
            doc.add(n.body[0])

    def in_annotation(n):
        while n in parents:
            p = parents[n]
            if isinstance(p, ast.arg) and p.annotation is n or isinstance(p, ast.AnnAssign) and p.annotation is n or isinstance(p, (ast.FunctionDef,)) and p.returns is n:
                return True
            n = p
        return False

    for i, n in enumerate(ast.walk(tree)):
        if isinstance(n, ast.Compare) and len(n.ops) == 1 and type(n.ops[0]) in CMP:
            out.append((i, "cmp", type(n.ops[0]).__name__))
        elif isinstance(n, ast.BinOp) and type(n.op) in BIN:
            if isinstance(n.op, ast.Mod) and isinstance(n.left, ast.Constant) and isinstance(n.left.value, str):
                continue
            if in_annotation(n):
                continue
            out.append((i, "bin", type(n.op).__name__))
        elif isinstance(n, ast.AugAssign) and type(n.op) in BIN:
            out.append((i, "aug", type(n.op).__name__))
            out.append((i, "delstmt", "augassign"))
        elif isinstance(n, ast.BoolOp):
            out.append((i, "bool", type(n.op).__name__))
        elif isinstance(n, ast.UnaryOp) and isinstance(n.op, (ast.Not, ast.USub, ast.Invert)):
            out.append((i, "unary", type(n.op).__name__))
        elif isinstance(n, ast.Constant) and not in_annotation(n):
            if isinstance(n.value, bool):
                out.append((i, "const", "flip"))
            elif isinstance(n.value, int):
                out.append((i, "const", "+1"))
                if n.value not in (0,):
                    out.append((i, "const", "-1"))
        elif isinstance(n, (ast.If, ast.While, ast.IfExp)) and not isinstance(n.test, (ast.Compare, ast.BoolOp, ast.UnaryOp)):
            out.append((i, "negtest", ""))
        elif isinstance(n, ast.Call) and isinstance(n.func, ast.Name) and n.func.id in WRAPPERS and len(n.args) == 1 and not n.keywords and not in_annotation(n):
            out.append((i, "unwrap", n.func.id))
        elif isinstance(n, ast.Expr) and isinstance(n.value, ast.Call) and n not in doc and not isinstance(parents.get(n), (ast.Module, ast.ClassDef)):
            out.append((i, "delstmt", "call"))
        elif NEWOPS and isinstance(n, (ast.Raise, ast.Continue, ast.Break)) or NEWOPS and isinstance(n, ast.Return) and isinstance(parents.get(n), (ast.If, ast.For, ast.While, ast.Try, ast.With)):
            # campaign 3: dropped validation / dropped early exit
            out.append((i, "delctl", type(n).__name__))
        if NEWOPS and isinstance(n, ast.Call) and not in_annotation(n):
            # campaign 3: 'semantic slip' operators - swapped adjacent positional arguments, a keyword argument that is
            # not forwarded (callee default applies)
            pos = [x for x in n.args if not isinstance(x, ast.Starred)]
            if len(pos) == len(n.args) and len(pos) >= 2:
                for k in range(len(pos) - 1):
                    if ast.dump(pos[k]) != ast.dump(pos[k + 1]):
                        out.append((i, "argswap", str(k)))
            for k, kw in enumerate(n.keywords):
                if kw.arg is not None:
                    out.append((i, "dropkw", kw.arg))
        if NEWOPS and isinstance(n, ast.BinOp) and isinstance(n.op, (ast.Mod, ast.BitAnd)) and not (isinstance(n.left, ast.Constant) and isinstance(n.left.value, str)) and not in_annotation(n):
            # campaign 3: wrap / mask dropped on one path
            out.append((i, "dropwrap", type(n.op).__name__))
        elif isinstance(n, ast.Assign) and not isinstance(parents.get(n), (ast.Module, ast.ClassDef)):
            out.append((i, "delstmt", "assign"))
    return out


def mutate(src, site):
    idx, op, detail = site
    tree = ast.parse(src)
    parents = {}
    for n in ast.walk(tree):
        for c in ast.iter_child_nodes(n):
            parents[c] = n
    node = None
    for i, n in enumerate(ast.walk(tree)):
        if i == idx:
            node = n
            break

    def replace(old, new):
        p = parents[old]
        for f, v in ast.iter_fields(p):
            if v is old:
                setattr(p, f, new)
                return
            if isinstance(v, list):
                for k, x in enumerate(v):
                    if x is old:
                        v[k] = new
                        return
        raise RuntimeError("not found")

    if op == "cmp":
        node.ops[0] = CMP[type(node.ops[0])]()
    elif op in ("bin", "aug"):
        node.op = BIN[type(node.op)]()
    elif op == "bool":
        node.op = ast.Or() if isinstance(node.op, ast.And) else ast.And()
    elif op == "unary":
        replace(node, node.operand)
    elif op == "const":
        if detail == "flip":
            node.value = not node.value
        elif detail == "+1":
            node.value = node.value + 1
        else:
            node.value = node.value - 1
    elif op == "negtest":
        node.test = ast.UnaryOp(op=ast.Not(), operand=node.test)
    elif op == "unwrap":
        replace(node, node.args[0])
    elif op in ("delstmt", "delctl"):
        replace(node, ast.Pass())
    elif op == "argswap":
        k = int(detail)
        node.args[k], node.args[k + 1] = node.args[k + 1], node.args[k]
    elif op == "dropkw":
        node.keywords = [kw for kw in node.keywords if kw.arg != detail]
    elif op == "dropwrap":
        replace(node, node.left)
    ast.fix_missing_locations(tree)
    return ast.unparse(tree), getattr(node, "lineno", 0)


def first_violation(stdout):
    for l in stdout.splitlines():
        if l.startswith("  ") and not l.startswith(("  observed", "  note", "  states")):
            return l.strip()[:260]
    return ""


def evaluate(job):
    f, site, checks, jobs_per_check = job
    src = open(os.path.join(REPO, f)).read()
    rec = {"file": f, "site": list(site)}
    try:
        new, line = mutate(src, site)
    except Exception as e:  # noqa
        rec["status"] = "mutation-error"
        rec["msg"] = repr(e)
        return rec
    rec["line"] = line
    old_lines = ast.unparse(ast.parse(src)).splitlines()
    new_lines = new.splitlines()
    diff = [(a_, b_) for a_, b_ in zip(old_lines, new_lines) if a_ != b_][:2]
    rec["diff"] = [{"old": a_.strip()[:160], "new": b_.strip()[:160]} for a_, b_ in diff]
    tmp = tempfile.mkdtemp(prefix="mutant-")
    try:
        for d in ("architecture_simulator", "tests"):
            shutil.copytree(os.path.join(REPO, d), os.path.join(tmp, d), ignore=shutil.ignore_patterns("__pycache__"))
        shutil.copy(os.path.join(REPO, "pyproject.toml"), tmp)
        open(os.path.join(tmp, f), "w").write(new)
        env = dict(os.environ, VERIF_REPO=tmp, PYTHONPATH=tmp, PYTHONDONTWRITEBYTECODE="1", VERIF_JOBS=str(jobs_per_check))
        t0 = time.time()
        try:
            r = subprocess.run(["/venv/bin/python", "-m", "pytest", "-q", "-x", "-p", "no:cacheprovider", "--timeout=120", "tests"], cwd=tmp, env=env, capture_output=True, text=True, timeout=400)
            tail = (r.stdout.strip().splitlines() or [""])[-1]
            ok = r.returncode == 0 and " passed" in tail and "failed" not in tail and "error" not in tail
        except subprocess.TimeoutExpired:
            ok, tail = False, "test suite timeout"
        rec["tests"] = tail[:120]
        rec["tests_s"] = round(time.time() - t0, 1)
        if not ok:
            rec["status"] = "killed_by_tests"
            return rec
        rec["checks"] = {}
        for c in checks:
            t0 = time.time()
            try:
                r = subprocess.run([os.path.join(VERIF, "check"), c, "--tier", "quick", "--no-evidence"], env=env, capture_output=True, text=True, timeout=1500)
                rc, fv = r.returncode, first_violation(r.stdout)
            except subprocess.TimeoutExpired:
                rc, fv = "timeout", ""
            rec["checks"][c] = {"rc": rc, "s": round(time.time() - t0, 1), "first": fv}
            if rc == 1:
                rec["status"] = "caught"
                rec["caught_by"] = c
                return rec
        rec["status"] = "inconclusive" if any(v["rc"] != 0 for v in rec["checks"].values()) else "survived"
        return rec
    finally:
        shutil.rmtree(tmp, ignore_errors=True)


def main():
    ap = argparse.ArgumentParser()
    ap.add_argument("--list", action="store_true")
    ap.add_argument("--files")
    ap.add_argument("--per-file", type=int, default=40)
    ap.add_argument("--seed", type=int, default=0)
    ap.add_argument("--jobs", type=int, default=7)
    ap.add_argument("--jobs-per-check", type=int, default=2)
    ap.add_argument("--out", default=os.path.join(VERIF, "mutation", "results.jsonl"))
    ap.add_argument("--resume", action="store_true")
    ap.add_argument("--one")
    ap.add_argument("--show", action="store_true")
    ap.add_argument("--all-checks", action="store_true")
    ap.add_argument("--only-ops")
    a = ap.parse_args()
    anc = anchors()
    files = sorted(anc) if not a.files else [f for f in a.files.split(",")]
    allsites = {}
    for f in files:
        allsites[f] = sites(ast.parse(open(os.path.join(REPO, f)).read()))
    if a.list:
        for f in files:
            print("%5d  %s  %s" % (len(allsites[f]), f, ",".join(anc.get(f, []))))
        print("%5d  total" % sum(len(v) for v in allsites.values()))
        return
    allc = ["C%02d" % i for i in range(1, 21)]
    if a.one:
        f, k = a.one.rsplit(":", 1)
        s = sites(ast.parse(open(os.path.join(REPO, f)).read()))[int(k)]
        if a.show:
            new, line = mutate(open(os.path.join(REPO, f)).read(), s)
            old = ast.unparse(ast.parse(open(os.path.join(REPO, f)).read())).splitlines()
            for x, y in zip(old, new.splitlines()):
                if x != y:
                    print("-", x, "\n+", y)
            return
        print(json.dumps(evaluate((f, s, allc if a.all_checks else anc.get(f, allc), 8)), indent=1))
        return
    rng = random.Random(a.seed)
    jobs = []
    done = set()
    if a.resume and os.path.exists(a.out):
        for l in open(a.out):
            d = json.loads(l)
            done.add((d["file"], tuple(d["site"])))
    for f in files:
        s = list(allsites[f])
        if a.only_ops:
            s = [x for x in s if x[1] in a.only_ops.split(",")]
        rng.shuffle(s)
        for site in s[: a.per_file]:
            if (f, tuple(site)) not in done:
                jobs.append((f, site, allc if a.all_checks else anc.get(f, allc), a.jobs_per_check))
    rng.shuffle(jobs)
    os.makedirs(os.path.dirname(a.out), exist_ok=True)
    print("%d mutants to evaluate (%d already done)" % (len(jobs), len(done)))
    n = {"killed_by_tests": 0, "caught": 0, "survived": 0, "mutation-error": 0}
    with cf.ThreadPoolExecutor(max_workers=a.jobs) as ex, open(a.out, "a") as out:
        for rec in ex.map(evaluate, jobs):
            n[rec["status"]] = n.get(rec["status"], 0) + 1
            out.write(json.dumps(rec) + "\n")
            out.flush()
            print("%-16s %s:%s %s %s" % (rec["status"], rec["file"].split("/")[-1], rec.get("line"), rec["site"][1:], rec.get("caught_by", "")), n)
            sys.stdout.flush()


if __name__ == "__main__":
    main()
