#!/usr/bin/env python3
"""Re-run the registered checks against every confirmed seeded change under seeded/ (each applied to a scratch
copy of /repo's package outside /repo and /verif) and print the detection matrix; --update rewrites
meta.json['caught_by'/'checks'].   tools/runseeds.py [--only id,id] [--tier quick] [--update] [--jobs 2]"""
import argparse, concurrent.futures as cf, glob, json, os, shutil, subprocess, sys, tempfile, time

ap = argparse.ArgumentParser()
ap.add_argument("--only")
ap.add_argument("--tier", default="quick")
ap.add_argument("--update", action="store_true")
ap.add_argument("--jobs", type=int, default=2)
ap.add_argument("--extra-checks", default="")
a = ap.parse_args()
VERIF = os.path.dirname(os.path.dirname(os.path.abspath(__file__)))


def one(d):
    meta = json.load(open(os.path.join(d, "meta.json")))
    tmp = tempfile.mkdtemp(prefix="runseed-")
    try:
        shutil.copytree("/repo/architecture_simulator", os.path.join(tmp, "architecture_simulator"), ignore=shutil.ignore_patterns("__pycache__"))
        r = subprocess.run(["patch", "-p1", "-s", "-d", tmp, "-i", os.path.join(d, "patch.diff")], capture_output=True, text=True)
        if r.returncode:
            return meta["id"], None, "patch does not apply"
        env = dict(os.environ, VERIF_REPO=tmp, PYTHONPATH=tmp, PYTHONDONTWRITEBYTECODE="1", VERIF_JOBS=str(max(2, 16 // a.jobs)))
        checks = sorted(set([meta["property"]] + list(meta.get("checks", {}).keys()) + [c for c in a.extra_checks.split(",") if c]))
        out = {}
        for c in checks:
            t0 = time.time()
            r = subprocess.run([os.path.join(VERIF, "check"), c, "--tier", a.tier, "--no-evidence"], env=env, capture_output=True, text=True)
            first = [l.strip() for l in r.stdout.splitlines() if l.startswith("  ") and not l.startswith(("  observed", "  note", "  states"))][:1]
            out[c] = {"tier": a.tier, "seed": 0, "rc": r.returncode, "first_violation": first[0][:300] if first else "", "wall_s": round(time.time() - t0, 1)}
        if a.update:
            meta["checks"] = {c: [v] for c, v in out.items()}
            meta["caught_by"] = sorted(c for c, v in out.items() if v["rc"] == 1)
            json.dump(meta, open(os.path.join(d, "meta.json"), "w"), indent=1)
        return meta["id"], out, meta["property"]
    finally:
        shutil.rmtree(tmp, ignore_errors=True)


dirs = sorted(os.path.dirname(f) for f in glob.glob(os.path.join(VERIF, "seeded", "*", "meta.json")))
if a.only:
    dirs = [d for d in dirs if os.path.basename(d) in a.only.split(",")]
missed = []
with cf.ThreadPoolExecutor(max_workers=a.jobs) as ex:
    for sid, out, prop in ex.map(one, dirs):
        if out is None:
            print(sid, "ERROR", prop)
            continue
        own = out.get(prop, {}).get("rc")
        print("%-8s own=%s %s  %s" % (sid, prop, "CAUGHT" if own == 1 else "MISSED(rc=%s)" % own, " ".join("%s:%s" % (c, {0: "held", 1: "VIOL", 2: "inconcl"}.get(v["rc"], v["rc"])) for c, v in out.items())))
        if own != 1:
            missed.append(sid)
        sys.stdout.flush()
print("missed by the property's own check:", missed)
