#!/usr/bin/env python3
"""Regenerates MANIFEST.json from the table below (keeps it valid at all times)."""
import json, os, sys

HERE = os.path.dirname(os.path.dirname(os.path.abspath(__file__)))
sys.path.insert(0, HERE)
from tools.manifest_table import CHECKS, NOT_APPLICABLE, ENGINES

ROUND8 = {
    "C01": "Round 8: value-coincidence idioms in the program generators (a word that holds its own address, silent stores, registers holding register numbers, the same load twice, equal operands); in every third directly installed program equal instructions are ONE object at several addresses; a share of the programs runs on a caller-supplied data memory that does not wrap addresses itself (stores through negative sums must still reach (rs1+imm) mod 2^32; what such a memory does with out-of-range LOAD addresses is not claimed and ends the case).",
    "C02": "Round 8: value-coincidence idioms and the same self-dependent instruction repeated (as one shared object in every third program); the unobserved run() twin is sometimes a simulation wrapped around a caller-built five-stage state with the facade's mode argument left at its default.",
    "C07": "Round 8: as C02 (shared instruction objects, repeated self-dependent instructions, unobserved twin on a caller-built state). Interlock-free cached programs whose stale pointer is unaligned are skipped (a data cache rejects the word-crossing access by design).",
    "C08": "Round 8: as C02; interlock-free cached programs in which a stale (not yet written) pointer happens to be unaligned are skipped - a data cache rejects the word-crossing access by design (C03), the reference has no cache.",
    "C03": "Round 8: accesses BELOW the data range through the cache (the lower memory rejects them: values, residency and - in accounting histories - the replacement order must be what they were; accepted = violation); value coincidences in histories (silent stores, value = address / tag / index); long light-weight histories on bare memory systems (hot phases of up to 66 500 accesses, 256-512 ways) judged on values and counters only.",
    "C09": "Round 8: long light-weight histories (a hot phase of 66 500 alternating accesses in one set so that a 16-bit age stamp would wrap; 300/512-way LRU, 256-way PLRU); counters are re-synchronised after an access the lower memory rejected (not claimed either way).",
    "C10": "Round 8: an access the lower memory rejects (address below the data range) is no block access - the next fill must still displace the reference victim; resident tags by way against the reference cache after the conflict misses of long histories (hot phases of 255+ changes of the most recently used block while other blocks stay idle); hot phases of hundreds of accesses on the bare policy objects.",
    "C12": "Round 8: the invariant is also evaluated after accesses the lower memory rejected (a read miss that fails must not lose the victim it had already picked).",
    "C04": "Round 8: renderings with CR-only and CR LF line ends; a program that fills the instruction memory exactly (4096 instructions, a li in the last two slots, a label behind the last instruction); the assembler's own entry point with ONE parser object reused after texts it rejected late.",
    "C05": "Round 8: indices and .zero counts spelled with leading zeros; strings containing backslashes (a backslash is a character); CR-only / CR LF line ends.",
    "C06": "Round 8: cells that hold their own address or a copy of a program word, accumulators equal to program addresses; sources with CR-only / CR LF line ends.",
    "C11": "Round 8: programs handed to write_instructions() as tuple or one-shot iterator; a lower InstructionMemory that was filled by the caller (pre-filled `instructions` field, one more instruction written through the lower object).",
    "C13": "Round 8: simulations whose data / instruction memory objects were replaced by the caller after construction (the idiom of the repository's own tests).",
    "C14": "Round 8: the printed listing is also re-assembled by one parser object that has just rejected other texts; a stub written behind a gap of empty words inside a cached block must appear in the instruction-cache table at its own address.",
    "C15": "Round 8: mnemonics / directives with a non-ASCII letter that case-folds to or looks like an ASCII one (found F7, repaired); decimal literals beyond the interpreter's int<->str limit (open known finding K3, printed as KNOWN-FINDING); programs that fit TOY machines of other memory sizes exactly must load.",
    "C16": "Round 8: register files in the documented test mode (caller-supplied list shorter than 32 entries: a step that fails without inspection must fail with it); one long run whose console output passes 64 KiB while the inspected twin keeps polling.",
    "C17": "Round 8: every table the monitor was handed is scribbled on (reversed, rows inserted / dropped) before the next request - the next answer must show the machine again; programs ending in a store that straddles the top of memory (table after the failed step).",
    "C18": "Round 8: stored values with 0x00 / 0xFF / sign-bit lanes and address coincidences, a few 8x longer histories, histories on the data memory of a state that was handed a smaller or shifted instruction memory (first data address stays 2^14).",
    "C19": "Round 8: sources with CR-only / CR LF line ends; a third assembly of the same source after the second image was executed.",
    "C20": "Round 8: programs loaded into a machine that was abandoned in the middle of an instruction (found F6: load_program kept the half-cycle marker; repaired).",
}
checks = []
for pid, c in CHECKS.items():
    checks.append(
        {
            "property_id": pid,
            "quick_cmd": "./check %s --tier quick" % pid,
            "thorough_cmd": "./check %s --tier thorough" % pid,
            "evidence_file": "evidence/%s.json" % pid,
            "replay_cmd_template": "./check %s --replay {path}" % pid,
            "engine": c["engine"],
            "level_claimed": {"category": "exploration", "text": c["text"], "design_ref": c["ref"]},
            "level_note": c["note"] + (" " + ROUND8[pid] if pid in ROUND8 else ""),
            "technique": c["technique"],
        }
    )
m = {
    "version": 1,
    "setup_cmd": "./setup.sh",
    "hooks": {
        "guard": "ARCHSIM_VERIF_HOOKS",
        "enable": "no source hooks are needed: every observation point is a public Python attribute/method, monitors are attached from the harness by wrapping (monkeypatch) at run time; the guard variable is reserved and unused",
        "baseline_off_cmd": "cd /repo && /venv/bin/python -m pytest -ra -q -p no:cacheprovider --timeout=900 --continue-on-collection-errors",
        "source_commits": [],
        "add_only": True,
    },
    "engines": ENGINES,
    "checks": checks,
    "notes": "Runtime monitoring only: the real code of /repo runs under generated workloads while wrappers at its API boundary compare every observed event with independent reference models (vp/refmodels). Verdicts are three-valued: exit 0 held / exit 1 VIOLATION / exit 2 INCONCLUSIVE (a deciding monitor never fired, watchdog, wrong import path). Known findings: known_findings.json (never written at run time). Five genuine defects were repaired in /repo as 'fix:' commits (340b78d b18d88f 7ed7171 97f6e3b f5f0ff7).",
    "not_applicable": NOT_APPLICABLE,
}
json.dump(m, open(os.path.join(HERE, "MANIFEST.json"), "w"), indent=1)
try:
    import jsonschema

    jsonschema.validate(m, json.load(open("/root/.vp/MANIFEST.schema.json")))
    print("MANIFEST.json valid:", len(checks), "checks,", len(NOT_APPLICABLE), "not_applicable")
except ImportError:
    print("MANIFEST.json written (jsonschema not available for validation)")
