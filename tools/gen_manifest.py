#!/usr/bin/env python3
"""Regenerates MANIFEST.json from the table below (keeps it valid at all times)."""
import json, os, sys

HERE = os.path.dirname(os.path.dirname(os.path.abspath(__file__)))
sys.path.insert(0, HERE)
from tools.manifest_table import CHECKS, NOT_APPLICABLE, ENGINES

checks = []
for pid, c in CHECKS.items():
    checks.append(
        {
            "property_id": pid,
            "quick_cmd": "./check %s --tier quick" % pid,
            "thorough_cmd": "./check %s --tier thorough" % pid,
            "evidence_file": "evidence/%s.json" % pid,
            "replay_cmd_template": "./check %s --replay {path}" % pid,
            "engine": c["engine"],
            "level_claimed": {"category": "exploration", "text": c["text"], "design_ref": c["ref"]},
            "level_note": c["note"],
            "technique": c["technique"],
        }
    )
m = {
    "version": 1,
    "setup_cmd": "./setup.sh",
    "hooks": {
        "guard": "ARCHSIM_VERIF_HOOKS",
        "enable": "no source hooks are needed: every observation point is a public Python attribute/method, monitors are attached from the harness by wrapping (monkeypatch) at run time; the guard variable is reserved and unused",
        "baseline_off_cmd": "cd /repo && /venv/bin/python -m pytest -ra -q -p no:cacheprovider --timeout=900 --continue-on-collection-errors",
        "source_commits": [],
        "add_only": True,
    },
    "engines": ENGINES,
    "checks": checks,
    "notes": "Runtime monitoring only: the real code of /repo runs under generated workloads while wrappers at its API boundary compare every observed event with independent reference models (vp/refmodels). Verdicts are three-valued: exit 0 held / exit 1 VIOLATION / exit 2 INCONCLUSIVE (a deciding monitor never fired, watchdog, wrong import path). Known findings: known_findings.json (never written at run time). Five genuine defects were repaired in /repo as 'fix:' commits (340b78d b18d88f 7ed7171 97f6e3b f5f0ff7).",
    "not_applicable": NOT_APPLICABLE,
}
json.dump(m, open(os.path.join(HERE, "MANIFEST.json"), "w"), indent=1)
try:
    import jsonschema

    jsonschema.validate(m, json.load(open("/root/.vp/MANIFEST.schema.json")))
    print("MANIFEST.json valid:", len(checks), "checks,", len(NOT_APPLICABLE), "not_applicable")
except ImportError:
    print("MANIFEST.json written (jsonschema not available for validation)")
