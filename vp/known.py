"""Known findings: committed list (known_findings.json) + mechanism predicates.

An OPEN entry suppresses a violation only if (a) the violation's property matches, and (b) the
predicate named in `matcher` accepts the violating case and symptom.  `fixed` entries suppress
nothing.  The file is never written at run time."""
import json
import os

from .common import VERIF


def _c03_block_larger_than_data_base(v):
    """data cache whose block is larger than the first data address: accesses whose block starts
    below 0x4000 fail with MemoryAddressError because the block fill reads below the data range."""
    case = v.get("case") or {}
    cfg = case.get("cfg") or case.get("dcache") or {}
    if not cfg:
        return False
    block_bytes = 4 << cfg.get("bb", 0)
    if block_bytes <= (1 << 14):
        return False
    if "MemoryAddressError" not in v.get("msg", ""):
        return False
    a = v.get("addr")
    return a is not None and (a & 0xFFFFFFFF) // block_bytes * block_bytes < (1 << 14)


def _c04_load_by_name_into_x0(v):
    """load-by-name with rd = x0: the emitted group builds the address in rd itself (x0 cannot hold it) and
    therefore reads address 0 and faults, whereas the documented expansion (t0 = &var; rd = M[t0]) has no fault."""
    st = v.get("stmt") or {}
    return v.get("kind") == "pseudo-effect" and st.get("k") == "ldv" and st.get("rd") == 0 and "group faults" in v.get("msg", "")


def _c15_decimal_longer_than_int_limit(v):
    """a DECIMAL literal with more digits than the interpreter converts (sys.get_int_max_str_digits(), 4300 by default)
    escapes load_program as the interpreter's raw ValueError"""
    import re
    import sys

    lim = getattr(sys, "get_int_max_str_digits", lambda: 4300)() or 4300
    text = (v.get("case") or {}).get("text") or ""
    return v.get("kind") == "untyped-load-error" and "ValueError" in v.get("msg", "") and "integer string conversion" in v.get("msg", "") and re.search(r"(?<![0-9a-fA-FxX])[0-9]{%d,}" % (lim + 1), text) is not None


MATCHERS = {"c15_decimal_longer_than_int_limit": _c15_decimal_longer_than_int_limit, "c03_block_larger_than_data_base": _c03_block_larger_than_data_base, "c04_load_by_name_into_x0": _c04_load_by_name_into_x0}


def load():
    p = os.path.join(VERIF, "known_findings.json")
    with open(p) as f:
        return json.load(f)


def classify(violation, findings=None):
    """returns the open finding entry that explains this violation, or None"""
    findings = findings if findings is not None else load()
    for e in findings.get("findings", []):
        if e.get("status") != "open" or e.get("property") != violation.get("prop"):
            continue
        m = MATCHERS.get(e.get("matcher"))
        if m and m(violation):
            return e
    return None
