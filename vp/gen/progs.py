"""Workload generators for RV32IM programs, single instructions and machine states.

Every generated thing is a plain JSON-serialisable description; the *description* is the source
of truth for the reference models (never the fields of the objects the repository builds)."""

M32 = 0xFFFFFFFF
R3 = ["add", "sub", "sll", "slt", "sltu", "xor", "srl", "sra", "or", "and", "mul", "mulh", "mulhu", "mulhsu", "div", "divu", "rem", "remu"]
IM = ["addi", "slti", "sltiu", "xori", "ori", "andi"]
SH = ["slli", "srli", "srai"]
LD = ["lb", "lh", "lw", "lbu", "lhu"]
ST = ["sb", "sh", "sw"]
BRM = ["beq", "bne", "blt", "bge", "bltu", "bgeu"]
WIDTH = {"lb": 1, "lbu": 1, "sb": 1, "lh": 2, "lhu": 2, "sh": 2, "lw": 4, "sw": 4}
ALL = R3 + IM + SH + LD + ST + BRM + ["lui", "auipc", "jal", "jalr", "ecall"]

BOUND32 = [0, 1, 2, 3, 4, 5, 7, 8, 15, 16, 17, 31, 32, 33, 63, 64, 0x7F, 0x80, 0xFF, 0x100, 0x7FF, 0x800, 0xFFF, 0x1000,
           0x7FFF, 0x8000, 0xFFFF, 0x10000, 0x3FFF, 0x4000, 0x4001, 0x7FFFFFFF, 0x80000000, 0x80000001, 0xFFFFFFFE, 0xFFFFFFFF,
           0xFFFF8000, 0xFFFFFF80, 0xFFFFF800, 0x55555555, 0xAAAAAAAA, 0x0000FFFF, 0xFFFF0000]
IMM12 = [-2048, -2047, -1025, -1024, -33, -32, -31, -17, -16, -5, -4, -3, -2, -1, 0, 1, 2, 3, 4, 5, 8, 15, 16, 17, 31, 32, 33, 63, 255, 256, 1023, 1024, 2046, 2047]
IMM20 = [0, 1, 2, 4, 5, 0x7FFFF, 0x80000, 0x80001, 0xFFFFE, 0xFFFFF, 0x12345, 0xABCDE, 0x00010, 0x04000 >> 12]
BIMM = [-4096, -4094, -2048, -16, -12, -8, -4, -2, 0, 2, 4, 6, 8, 12, 16, 2048, 4092, 4094]
JIMM = [-(1 << 20), -(1 << 20) + 2, -4096, -8, -4, -2, 0, 2, 4, 8, 12, 4096, (1 << 20) - 4, (1 << 20) - 2]
ECALL_CODES = [1, 2, 4, 10, 11, 34, 35, 36, 93]
BAD_CODES = [0, 3, 5, 9, 12, 33, 37, 92, 94, 0xFFFFFFFF, 0x80000001, 1 << 8]

ALIAS = ["distinct", "rd=rs1", "rd=rs2", "rs1=rs2", "all_equal", "rd=x0", "rs1=x0", "rs2=x0", "all_x0"]


def val32(rng):
    k = rng.random()
    if k < 0.55:
        return rng.choice(BOUND32)
    if k < 0.7:
        return rng.getrandbits(32)
    if k < 0.8:
        return rng.getrandbits(5)
    if k < 0.9:
        return (1 << rng.randrange(32)) - rng.choice([0, 1])
    return M32 - rng.getrandbits(rng.randrange(1, 16))


def pick_regs(rng, pattern):
    pool = [1, 2, 5, 10, 17, 31, rng.randrange(1, 32), rng.randrange(1, 32)]
    a, b, c = rng.sample(sorted(set(pool)), 3) if len(set(pool)) >= 3 else (1, 2, 3)
    rd, rs1, rs2 = a, b, c
    if pattern == "rd=rs1":
        rs1 = rd
    elif pattern == "rd=rs2":
        rs2 = rd
    elif pattern == "rs1=rs2":
        rs2 = rs1
    elif pattern == "all_equal":
        rs1 = rs2 = rd
    elif pattern == "rd=x0":
        rd = 0
    elif pattern == "rs1=x0":
        rs1 = 0
    elif pattern == "rs2=x0":
        rs2 = 0
    elif pattern == "all_x0":
        rd = rs1 = rs2 = 0
    return rd, rs1, rs2


def rand_bytes(rng, base, n):
    return {str((base + i) & M32): rng.choice([0, 0, 0x7F, 0x80, 0xFF, rng.getrandbits(8)]) for i in range(n) if ((base + i) & M32) >= 0x4000}


def mem_target(rng, width):
    """(address class name, target address)"""
    k = rng.random()
    if k < 0.35:
        return "valid_aligned", 0x4000 + 4 * rng.randrange(0, 64)
    if k < 0.5:
        return "valid_unaligned", 0x4000 + rng.randrange(0, 256)
    if k < 0.62:
        return "low_boundary", 0x4000 + rng.randrange(-4, 4)
    if k < 0.74:
        return "top_boundary", (0x100000000 + rng.randrange(-8, 4)) & M32
    if k < 0.82:
        return "high", rng.choice([0x80000000, 0x7FFFFFFC, 0x10000000, 0xFFFF0000]) + rng.randrange(0, 8)
    if k < 0.9:
        return "invalid_low", rng.randrange(0, 0x4000)
    return "random", rng.getrandbits(32)


STRINGS = [[], [72, 105], [0x80, 0xFF, 0x41, 0x7F, 1], list(b"Hello, World!"), [10, 9, 13]]


def instr_case(rng, m=None):
    """one instruction + machine state; classes recorded for coverage accounting."""
    m = m or rng.choice(ALL)
    pattern = rng.choice(ALIAS)
    rd, rs1, rs2 = pick_regs(rng, pattern)
    regs = {}
    for r in {rd, rs1, rs2, 10, 17, rng.randrange(1, 32)}:
        if r:
            regs[str(r)] = val32(rng)
    addr = rng.choice([0, 0, 4, 8, 0x3FFC, 0x3FF8, 4 * rng.randrange(0, 4096)])
    mem = {}
    d = {"m": m}
    cls = [pattern]
    if m in R3:
        d.update(rd=rd, rs1=rs1, rs2=rs2)
        if m in ("sll", "srl", "sra") and rs2 and rng.random() < 0.5:
            regs[str(rs2)] = rng.choice([0, 1, 31, 32, 33, 63, 64, 0xFFFFFFE0, 0xFFFFFFFF, rng.getrandbits(32)])
        if m in ("div", "rem", "divu", "remu") and rng.random() < 0.5:
            a, b = rng.choice([(0x80000000, M32), (5, 0), (0, 0), (M32, M32), (0x80000000, 1), (7, M32 - 1), (M32 - 6, 2), (0x80000000, 0x80000000), (1, 0x80000000)])
            if rs1:
                regs[str(rs1)] = a
            if rs2:
                regs[str(rs2)] = b
    elif m in IM:
        d.update(rd=rd, rs1=rs1, imm=rng.choice(IMM12 + [rng.randint(-2048, 2047)]))
    elif m in SH:
        d.update(rd=rd, rs1=rs1, imm=rng.choice([0, 1, 2, 7, 8, 15, 16, 30, 31, rng.randrange(32)]))
    elif m in ("lui", "auipc"):
        d.update(rd=rd, imm=rng.choice(IMM20 + [rng.getrandbits(20)]))
    elif m in LD or m in ST:
        w = WIDTH[m]
        kind, tgt = mem_target(rng, w)
        cls.append(kind)
        imm = rng.choice(IMM12 + [rng.randint(-2048, 2047)])
        if m in LD:
            d.update(rd=rd, rs1=rs1, imm=imm)
        else:
            d.update(rs1=rs1, rs2=rs2, imm=imm)
        if rs1:
            regs[str(rs1)] = (tgt - imm) & M32
            if m in ST and rs2 == rs1:
                pass
        mem.update(rand_bytes(rng, tgt - 4, 12))
    elif m in BRM:
        d.update(rs1=rs1, rs2=rs2, imm=rng.choice(BIMM + [2 * rng.randint(-2048, 2047)]))
        if rng.random() < 0.3 and rs1 and rs2 and rs1 != rs2:
            regs[str(rs2)] = regs[str(rs1)]
    elif m == "jal":
        d.update(rd=rd, imm=rng.choice(JIMM + [2 * rng.randint(-(1 << 19), (1 << 19) - 1)]))
    elif m == "jalr":
        d.update(rd=rd, rs1=rs1, imm=rng.choice(IMM12 + [rng.randint(-2048, 2047)]))
        if rs1 and rng.random() < 0.5:
            regs[str(rs1)] = rng.choice([0, 1, 3, 4, 5, 8, 0x3FFC, 0x3FFD, 0x4000, M32, M32 - 1, M32 - 3, 0x80000000, addr, addr + 1, (addr + 4) & M32])
    elif m == "ecall":
        k = rng.random()
        code = rng.choice(ECALL_CODES) if k < 0.8 else rng.choice(BAD_CODES + [rng.getrandbits(32)])
        regs["17"] = code
        cls = ["code%d" % code if code in ECALL_CODES else "badcode"]
        if code == 4:
            skind = rng.choice(["plain", "plain", "top_unterminated", "invalid_ptr", "zero_mem", "top_terminated"])
            cls.append(skind)
            s = rng.choice(STRINGS)
            if skind == "plain":
                p = 0x4000 + rng.randrange(0, 64)
                for i, ch in enumerate(s + [0]):
                    mem[str(p + i)] = ch
            elif skind == "top_unterminated":
                p = 0x100000000 - len(s) - 1
                for i in range(len(s) + 1):
                    mem[str(p + i)] = (s + [0x21])[i] or 0x21
            elif skind == "top_terminated":
                p = 0x100000000 - len(s) - 1
                for i, ch in enumerate(s + [0]):
                    mem[str(p + i)] = ch
            elif skind == "invalid_ptr":
                p = rng.choice([0, 0x3FFF, 100])
            else:
                p = rng.choice([0x5000, 0xFFFFFFFF, 0x4000])
            regs["10"] = p & M32
        else:
            regs["10"] = rng.choice([val32(rng), 0x3F800000, 0x7FC00000, 0xFF800000, 0x00000001, 0x40490FDB, 0x80000000, 65, 0xC1, 0x80, 0x100 + 66])
    return {"kind": "instr", "instr": d, "addr": addr, "regs": regs, "mem": mem, "cls": cls}


# ---------------------------------------------------------------------------------- programs

POOL = [0, 1, 2, 3, 10, 17]


def _alu(rng, pool):
    k = rng.random()
    rd, rs1, rs2 = rng.choice(pool), rng.choice(pool), rng.choice(pool)
    if k < 0.45:
        return {"m": rng.choice(R3), "rd": rd, "rs1": rs1, "rs2": rs2}
    if k < 0.8:
        return {"m": rng.choice(IM), "rd": rd, "rs1": rs1, "imm": rng.choice([-2048, -1, 0, 1, 2, 3, 4, 8, 17, 2047, rng.randint(-2048, 2047)])}
    if k < 0.9:
        return {"m": rng.choice(SH), "rd": rd, "rs1": rs1, "imm": rng.randrange(32)}
    return {"m": rng.choice(["lui", "auipc"]), "rd": rd, "imm": rng.choice([0, 1, 4, 5, 0x7FFFF, 0x80000, 0xFFFFF, rng.getrandbits(20)])}


def _memop(rng, pool, aligned, base_reg=31, window=64):
    m = rng.choice(LD + ST)
    w = WIDTH[m]
    off = rng.randrange(0, window, w if aligned else 1)
    if rng.random() < 0.12:
        # top of memory through x0 and a negative offset: the computed address is a negative integer
        base_reg = 0
        off = -rng.randrange(w, window + 1, w if aligned else 1)
        if rng.random() < 0.6:
            off = -rng.choice([4, 8, 12, 16]) + (rng.randrange(0, 4, w) if w < 4 and aligned else 0)  # collide often
    if m in LD:
        return {"m": m, "rd": rng.choice(pool), "rs1": base_reg, "imm": off}
    return {"m": m, "rs1": base_reg, "rs2": rng.choice(pool), "imm": off}


def _coincidence(rng, work, aligned=True):
    """value coincidences: two independent quantities that happen to be equal or related"""
    rx, ry, rz = rng.choice(work), rng.choice(work), rng.choice(work)
    off = rng.randrange(0, 60, 4)
    k = rng.randrange(10)
    if k == 9:
        # the very same self-dependent instruction two or three times in a row, or with one instruction in between
        i_ = rng.choice([{"m": "addi", "rd": rx, "rs1": rx, "imm": rng.choice([1, -1, 3])}, {"m": "add", "rd": rx, "rs1": rx, "rs2": rx}, {"m": "slli", "rd": rx, "rs1": rx, "imm": 1}, {"m": "lw", "rd": rx, "rs1": rx, "imm": 0} if False else {"m": "xori", "rd": rx, "rs1": rx, "imm": 5}])
        return rng.choice([[i_, dict(i_), dict(i_)], [i_, dict(i_)], [i_, {"m": "addi", "rd": ry, "rs1": 0, "imm": 7}, dict(i_)], [i_, {"m": "addi", "rd": 0, "rs1": 0, "imm": 0}, {"m": "addi", "rd": 0, "rs1": 0, "imm": 0}, dict(i_)]])
    if k == 0:
        # a word that holds its own address, read back and used as a pointer
        return [{"m": "addi", "rd": rx, "rs1": 31, "imm": off}, {"m": "sw", "rs1": 31, "rs2": rx, "imm": off}, {"m": "lw", "rd": ry, "rs1": rx, "imm": 0}, {"m": "lw", "rd": rz, "rs1": ry, "imm": 0}]
    if k == 1:
        # the same store twice (a silent store), then the load
        st = {"m": rng.choice(ST), "rs1": 31, "rs2": rx, "imm": off}
        return [st, dict(st), {"m": "lw", "rd": ry, "rs1": 31, "imm": off}]
    if k == 2:
        # store of the value the word already holds (just loaded), a different store to the neighbour, load both
        return [{"m": "lw", "rd": ry, "rs1": 31, "imm": off}, {"m": "sw", "rs1": 31, "rs2": ry, "imm": off}, {"m": "sb", "rs1": 31, "rs2": rx, "imm": off + 4}, {"m": "lw", "rd": rz, "rs1": 31, "imm": off}, {"m": "lw", "rd": rx, "rs1": 31, "imm": off + 4}]
    if k == 3:
        # a register that holds its own number / the number of the other operand; shift amounts equal to register numbers
        return [{"m": "addi", "rd": rx, "rs1": 0, "imm": rx}, {"m": rng.choice(["sll", "srl", "sra", "add", "sub", "mul"]), "rd": ry, "rs1": rz, "rs2": rx}, {"m": rng.choice(SH), "rd": rz, "rs1": ry, "imm": rng.choice([rx, ry, rz])}]
    if k == 4:
        # the pc as a value: auipc, then arithmetic/compare with a register holding the same number
        return [{"m": "auipc", "rd": rx, "imm": 0}, {"m": "addi", "rd": ry, "rs1": rx, "imm": rng.choice([0, 4, 8])}, {"m": rng.choice(["sub", "xor", "sltu", "slt"]), "rd": rz, "rs1": ry, "rs2": rx}]
    if k == 5:
        # the very same load twice in a row, and once more after an unrelated store
        ld = {"m": rng.choice(LD), "rd": ry, "rs1": 31, "imm": off}
        return [ld, dict(ld, rd=rz), {"m": "sw", "rs1": 31, "rs2": rx, "imm": (off + 8) % 64}, dict(ld, rd=rx)]
    if k == 6:
        # equal operands: x op x, branch on a register with itself
        m = rng.choice(["sub", "xor", "and", "or", "slt", "sltu", "div", "rem", "divu", "remu", "mulh", "mulhsu"])
        return [{"m": m, "rd": ry, "rs1": rx, "rs2": rx}, {"m": rng.choice(BRM), "rs1": ry, "rs2": ry, "imm": 8}, {"m": "addi", "rd": rz, "rs1": rz, "imm": 1}]
    if k == 7:
        # byte / half stores of 0 and of 0x80.. into a word, sign-extending loads of each lane
        lane = rng.choice([0, 1, 2, 3])
        return [{"m": "addi", "rd": rx, "rs1": 0, "imm": rng.choice([0, -128, 0x80, 0xFF, -1])}, {"m": "sb", "rs1": 31, "rs2": rx, "imm": off + lane}, {"m": "lb", "rd": ry, "rs1": 31, "imm": off + lane}, {"m": "lbu", "rd": rz, "rs1": 31, "imm": off + lane}, {"m": "lh" if aligned else "lhu", "rd": rx, "rs1": 31, "imm": off + (lane & 2)}]
    # store data register == base register (sw x31-like): the address is stored into itself
    return [{"m": "addi", "rd": rx, "rs1": 31, "imm": off}, {"m": rng.choice(["sw", "sh", "sb"]), "rs1": rx, "rs2": rx, "imm": 0}, {"m": "lw", "rd": ry, "rs1": rx, "imm": 0}]


def soup_program(rng, n, aligned=True, ecall=True, jalr=True, pool=None, mem_w=0.12, window=64):
    """dense random instruction soup: local branches/jumps (distance <= 5), dependencies at every distance."""
    pool = pool or POOL
    out = []
    for i in range(n):
        k = rng.random()
        rd, rs1, rs2 = rng.choice(pool), rng.choice(pool), rng.choice(pool)
        if k < 0.55 - mem_w:
            out.append(_alu(rng, pool))
        elif k < 0.55:
            out.append(_memop(rng, pool, aligned, window=window))
        elif k < 0.72:
            tgt = rng.randint(max(0, i - 4), min(n, i + 5))
            imm = (tgt - i) * 4
            if rng.random() < 0.04:
                imm += 2  # legal encodable target with pc % 4 == 2: no instruction there, execution ends
            out.append({"m": rng.choice(BRM), "rs1": rs1, "rs2": rs2, "imm": imm})
        elif k < 0.79:
            tgt = rng.randint(max(0, i - 3), min(n, i + 5))
            out.append({"m": "jal", "rd": rd, "imm": (tgt - i) * 4})
        elif k < 0.84 and jalr:
            tgt = rng.randint(i + 1, min(n, i + 4))
            out.append({"m": "jalr", "rd": rd, "rs1": 0, "imm": tgt * 4 + rng.choice([0, 1])})
        elif k < 0.92 and ecall:
            out.append({"m": "ecall"})
        else:
            out.append({"m": "addi", "rd": 0, "rs1": 0, "imm": 0})
    return out


def soup_regs(rng, pool=None, bad_ecall=0.15):
    pool = pool or POOL
    regs = {}
    for r in pool:
        if r:
            regs[str(r)] = rng.choice([0, 1, 2, M32, 0x80000000, 0x7FFFFFFF, rng.getrandbits(32), 10, 17, 4, 93, 11, 34, r, 4 * r])
    regs["17"] = rng.choice(ECALL_CODES) if rng.random() > bad_ecall else rng.choice([0, 5, 12])
    regs["10"] = rng.choice([0, 1, 0x4000, 0x4010, 65, M32, rng.getrandbits(32)])
    regs["31"] = rng.choice([0x4000, 0x4000, 0x4040, 0x5000, 0x4000, 0x7FFFFFE0, 0x80000000, 0xFFFFFF80, 0xFFFFFFC0])
    return regs


def structured_program(rng, size=30, aligned=True, faults=False):
    """structured program: counted loops (nestable), forward skips, calls via JAL/JALR, loads/stores in a
    window, printing ecalls, explicit exit.  Terminates by construction unless `faults` adds hazards."""
    pool = [1, 2, 3, 5, 10, 17]
    work = [1, 2, 3, 5]
    main = []
    funcs = []

    def body(k, depth):
        out = []
        while len(out) < k:
            r = rng.random()
            if r < 0.36:
                out.append(_alu(rng, work))
            elif r < 0.4:
                out += _coincidence(rng, work, aligned)
            elif r < 0.52:
                out.append(_memop(rng, work, aligned))
            elif r < 0.56:
                # the same word at the top of memory reached as a negative sum (x0 - k) and as a wrapped register value
                k_ = rng.choice([4, 8, 12, 16, 64])
                rx, ry, rz = rng.choice(work), rng.choice(work), rng.choice(work)
                seq = [{"m": rng.choice(["sw", "sh", "sb"]), "rs1": 0, "rs2": rx, "imm": -k_}, {"m": "lw", "rd": ry, "rs1": 0, "imm": -k_}, {"m": "addi", "rd": 7, "rs1": 0, "imm": -k_}, {"m": rng.choice(["lw", "sw"]), "rs1": 7, "imm": 0}]
                seq[3]["rd" if seq[3]["m"] == "lw" else "rs2"] = rz
                rng.shuffle(seq[:2])
                out += seq if rng.random() < 0.5 else [seq[2], seq[3], seq[0], seq[1]]
            elif r < 0.6:
                # sub-word store, word load of the same word, then arithmetic that overflows 32 bits
                off = rng.randrange(0, 60, 4)
                rx, ry = rng.choice(work), rng.choice(work)
                out.append({"m": rng.choice(["sb", "sh"]), "rs1": 31, "rs2": rx, "imm": off + rng.choice([0, 2])})
                out.append({"m": "lw", "rd": ry, "rs1": 31, "imm": off})
                out.append(rng.choice([{"m": "slli", "rd": ry, "rs1": ry, "imm": rng.randint(8, 31)}, {"m": "add", "rd": ry, "rs1": ry, "rs2": ry}, {"m": "sll", "rd": ry, "rs1": ry, "rs2": ry}, {"m": "mul", "rd": ry, "rs1": ry, "rs2": ry}]))
            elif r < 0.635:
                # load, then a sub-word store INTO the loaded bytes at a non-zero offset, then the very same load again
                # (no other read in between), both results combined so that a stale second result shows
                off = rng.randrange(0, 60, 4)
                rx, ry, rz = rng.choice(work), rng.choice(work), rng.choice(work)
                ld = rng.choice(["lw", "lw", "lh", "lhu"])
                w_ = 4 if ld == "lw" else 2
                lo = off + (rng.choice([0, 2]) if w_ == 2 else 0)
                st_m = rng.choice(["sb", "sh"]) if w_ == 4 else "sb"
                st_off = lo + (rng.choice([1, 2, 3]) if st_m == "sb" and w_ == 4 else (2 if st_m == "sh" else 1))
                out.append({"m": ld, "rd": ry, "rs1": 31, "imm": lo})
                out.append({"m": st_m, "rs1": 31, "rs2": rx, "imm": st_off})
                out.append({"m": ld, "rd": rz, "rs1": 31, "imm": lo})
                out.append({"m": rng.choice(["xor", "sub", "add"]), "rd": rz, "rs1": rz, "rs2": ry})
            elif r < 0.7 and depth < 2:
                cnt = [28, 29, 30][depth]
                inner = body(rng.randint(1, 4), depth + 1)
                out.append({"m": "addi", "rd": cnt, "rs1": 0, "imm": rng.randint(1, 3)})
                out += inner
                out.append({"m": "addi", "rd": cnt, "rs1": cnt, "imm": -1})
                out.append({"m": "bne", "rs1": cnt, "rs2": 0, "imm": -4 * (len(inner) + 1)})
            elif r < 0.8:
                inner = body(rng.randint(1, 3), depth + 1)
                out.append({"m": rng.choice(BRM), "rs1": rng.choice(work), "rs2": rng.choice(work), "imm": 4 * (len(inner) + 1)})
                out += inner
            elif r < 0.82:
                # print-string ecall right behind stores into (or conflicting with) the string's block: the ecall's
                # uncounted byte reads and the older stores' counted accesses must keep their program order
                off = rng.randrange(0, 64, 4)
                rx = rng.choice(work)
                out.append({"m": "addi", "rd": 17, "rs1": 0, "imm": 4})
                out.append({"m": "addi", "rd": 10, "rs1": 31, "imm": off + rng.choice([0, 0, 1, 2])})
                st = lambda: {"m": rng.choice(["sb", "sh", "sw"]), "rs1": 31, "rs2": rx, "imm": rng.choice([off, off, off + 4, off + 64, off + 128, off + 256])}
                shape = rng.random()
                if shape < 0.4:
                    out += [{"m": "addi", "rd": rx, "rs1": rx, "imm": rng.choice([1, 65, 0x141])}, st()]
                elif shape < 0.7:
                    out += [st(), st()]
                else:
                    out += [st(), _alu(rng, work)][: rng.randint(1, 2)]
                out.append({"m": "ecall"})
            elif r < 0.87:
                code = rng.choice([1, 11, 34, 35, 36, 2])
                out.append({"m": "addi", "rd": 17, "rs1": 0, "imm": code})
                if rng.random() < 0.7:
                    out.append({"m": "addi", "rd": 10, "rs1": rng.choice(work), "imm": rng.choice([0, 1, 65])})
                for _ in range(rng.choice([0, 0, 1, 2])):
                    out.append(_alu(rng, work))
                out.append({"m": "ecall"})
            elif r < 0.93 and depth == 0:
                f = [_alu(rng, work) for _ in range(rng.randint(0, 3))] + [{"m": "jalr", "rd": 0, "rs1": 6, "imm": 0}]
                funcs.append((len(out), f))
                out.append({"m": "jal", "rd": 6, "imm": None})  # patched below
            else:
                out.append({"m": "addi", "rd": 0, "rs1": 0, "imm": 0})
        return out

    main = body(size, 0)
    # terminate main: exit ecall (sometimes fall through / jump outside)
    t = rng.random()
    if t < 0.5:
        main += [{"m": "addi", "rd": 17, "rs1": 0, "imm": rng.choice([10, 93])}, {"m": "ecall"}]
        # younger instructions behind the exit must have no effect
        main += [{"m": "addi", "rd": 1, "rs1": 1, "imm": 77}, {"m": "sw", "rs1": 31, "rs2": 1, "imm": 0}]
        tail_jump = False
    elif t < 0.62:
        # leave the program through a jump far outside: beyond the instruction memory's address range, or below 0
        main += [rng.choice([{"m": "jal", "rd": 0, "imm": 20000}, {"m": "jal", "rd": 0, "imm": 0x4000}, {"m": "beq", "rs1": 0, "rs2": 0, "imm": -4096}, {"m": "jal", "rd": 0, "imm": -(1 << 19)}])]
        tail_jump = False
    else:
        tail_jump = True
    # place functions after main, patch jal displacements
    prog = list(main)
    if tail_jump:
        prog.append({"m": "jal", "rd": 0, "imm": None, "_end": True})
    fpos = []
    for (_, f) in funcs:
        fpos.append(len(prog))
        prog += f
    end = len(prog)
    fi = 0
    for i, d in enumerate(prog):
        if d["m"] == "jal" and d["imm"] is None:
            if d.pop("_end", False):
                d["imm"] = 4 * (end - i)
            else:
                d["imm"] = 4 * (fpos[fi] - i)
                fi += 1
    if faults and rng.random() < 0.5:
        # replace (not insert: displacements stay valid) a non-control instruction by a faulting one
        cand = [i for i, d in enumerate(prog) if d["m"] not in BRM + ["jal", "jalr", "ecall"] and d.get("rd") not in (28, 29, 30, 6)]
        if cand:
            prog[rng.choice(cand)] = rng.choice([{"m": "lw", "rd": 1, "rs1": 0, "imm": rng.choice([0, 4, 100])}, {"m": "sw", "rs1": 0, "rs2": 1, "imm": 8}, {"m": "addi", "rd": 17, "rs1": 0, "imm": 5}, {"m": "lh", "rd": 2, "rs1": 31, "imm": -2048}])
    regs = {"31": 0x4000 + rng.choice([0, 0x20, 0x400]), "17": rng.choice(ECALL_CODES), "10": rng.choice([0, 65, 0x4000])}
    for r in work:
        regs[str(r)] = val32(rng)
    return prog, regs


def init_mem(rng, base=0x4000, n=96):
    if rng.random() < 0.3:
        return {}
    return {str(base + i): rng.getrandbits(8) for i in range(n) if rng.random() < 0.7}


def straightline_independent(rng, n):
    """n mutually independent instructions (no RAW at any distance): each writes its own register from x0"""
    out = []
    regs = list(range(1, 32))
    rng.shuffle(regs)
    for i in range(n):
        rd = regs[i % 31]
        k = rng.random()
        if k < 0.5:
            out.append({"m": rng.choice(IM), "rd": rd, "rs1": 0, "imm": rng.randint(-2048, 2047)})
        elif k < 0.75:
            out.append({"m": "lui", "rd": rd, "imm": rng.getrandbits(20)})
        elif k < 0.9:
            out.append({"m": rng.choice(R3), "rd": rd, "rs1": 0, "rs2": 0})
        else:
            out.append({"m": "auipc", "rd": rd, "imm": rng.getrandbits(20)})
    return out


def pad_with_nops(prog, k=2):
    """insert k nops behind every instruction, rescaling pc-relative displacements (JALR untouched:
    callers only pad programs whose JALR targets are not absolute)."""
    nop = {"m": "addi", "rd": 0, "rs1": 0, "imm": 0}
    out = []
    for d in prog:
        e = dict(d)
        if e["m"] in BRM or e["m"] == "jal":
            e["imm"] = e["imm"] * (k + 1)
        out.append(e)
        for _ in range(k):
            out.append(dict(nop))
    return out
