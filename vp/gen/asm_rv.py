"""R7 (RISC-V part) - generator with semantics for assembler sources.

Builds a program AST from the documented grammar and computes FROM THE AST (never from text) the data
layout/image, label addresses, displacements and the expected real instructions; independent renderers
turn one AST into many spellings."""
import random

M32 = 0xFFFFFFFF
ABI = {0: ["zero"], 1: ["ra"], 2: ["sp"], 3: ["gp"], 4: ["tp"], 5: ["t0"], 6: ["t1"], 7: ["t2"], 8: ["s0", "fp"], 9: ["s1"], 10: ["a0"], 11: ["a1"], 12: ["a2"], 13: ["a3"], 14: ["a4"], 15: ["a5"], 16: ["a6"], 17: ["a7"],
       18: ["s2"], 19: ["s3"], 20: ["s4"], 21: ["s5"], 22: ["s6"], 23: ["s7"], 24: ["s8"], 25: ["s9"], 26: ["s10"], 27: ["s11"], 28: ["t3"], 29: ["t4"], 30: ["t5"], 31: ["t6"]}
R3 = ["add", "sub", "sll", "slt", "sltu", "xor", "srl", "sra", "or", "and", "mul", "mulh", "mulhu", "mulhsu", "div", "divu", "rem", "remu"]
IM = ["addi", "slti", "sltiu", "xori", "ori", "andi"]
SH = ["slli", "srli", "srai"]
LD = ["lb", "lh", "lw", "lbu", "lhu"]
ST = ["sb", "sh", "sw"]
BR = ["beq", "bne", "blt", "bge", "bltu", "bgeu"]
ELEM = {"byte": 1, "half": 2, "word": 4, "string": 1, "zero": 4}
DATA_BASE = 1 << 14
STR_CHARS = "abcXYZ 019,.:;!?()[]+-*/_<>=&%$@^~|{}'`"


# ----------------------------------------------------------------------------------------- data


def gen_data(rng, nmax=5):
    out = []
    if rng.random() < 0.12:
        # a large zeroed pad first: the variables behind it have addresses whose low 12 bits cross 0x800 / 0x1000
        # (lui/addi carry in la, load-by-name, store-by-name); .zero costs nothing in the image
        out.append({"name": "zpad_", "type": "zero", "n": rng.choice([505, 509, 510, 511, 512, 513, 1019, 1022, 1023, 1024, 1025, 1531, 1535, 1536, 2047, 2048])})
    for i in range(rng.randint(0, nmax)):
        name = rng.choice(["v%d", "my_var%d", "buf_%d", "_d%d", "Arr%d_x"]) % i
        t = rng.choice(["byte", "half", "word", "string", "zero"])
        if t in ("byte", "half", "word"):
            vals = [rng.choice([0, 1, -1, 127, 128, 255, 256, -128, -129, 32767, 32768, 65535, 65536, -32768, 2**31 - 1, 2**31, 2**32 - 1, 2**32, 2**32 + 5, -(2**31), -(2**31) - 1, rng.getrandbits(33) - 2**32, rng.getrandbits(8)]) for _ in range(rng.randint(1, 9))]
            out.append({"name": name, "type": t, "vals": vals})
        elif t == "string":
            s_ = "".join(rng.choice(STR_CHARS) for _ in range(rng.randint(0, 12)))
            if rng.random() < 0.2:
                # a backslash is a character like any other (a path, a regular expression): "strings as their bytes"
                at = rng.randrange(len(s_) + 1)
                s_ = s_[:at] + "\\" + rng.choice("ntrfuN0abcq ") + s_[at:]
            out.append({"name": name, "type": t, "s": s_})
        else:
            out.append({"name": name, "type": t, "n": rng.randint(1, 9)})
    return out


def layout(data, base=None):
    """declaration order from the first data address, each variable 4-byte aligned; returns
    (vars: name -> (addr, elem size, count), image: byte addr -> value, end address)"""
    addr = DATA_BASE if base is None else base
    vars_, img = {}, {}
    for d in data:
        addr = (addr + 3) & ~3
        t = d["type"]
        w = ELEM[t]
        if t in ("byte", "half", "word"):
            vars_[d["name"]] = (addr, w, len(d["vals"]))
            for v in d["vals"]:
                u = v % (1 << (8 * w))
                for k in range(w):
                    img[addr + k] = (u >> (8 * k)) & 0xFF
                addr += w
        elif t == "string":
            vars_[d["name"]] = (addr, 1, len(d["s"]) + 1)
            for ch in d["s"]:
                img[addr] = ord(ch)
                addr += 1
            img[addr] = 0
            addr += 1
        else:
            vars_[d["name"]] = (addr, 4, d["n"])  # zeroed words: not materialised in the image (absent = 0)
            addr += 4 * d["n"]
    return vars_, img, addr


# ----------------------------------------------------------------------------------------- statements

LI_CONSTS = [0, 1, -1, 2047, 2048, -2048, -2049, 0x7FF, 0x800, 0x801, 0xFFF, 0x1000, 0x1800, 0x7FFFF800, 0x7FFFFFFF, 0x80000000, 0x800007FF, 0x80000800, 0xFFFFF7FF, 0xFFFFF800, 0xFFFFFFFF, 0x100000000, 0x1FFFFFFFF, -0x80000000, -0x80000001, -0xFFFFFFFF, 4096, 100000]


def gen_stmt(rng, vars_, labels):
    k = rng.random()
    rd, rs1, rs2 = rng.randrange(32), rng.randrange(32), rng.randrange(32)
    if k < 0.17:
        return {"k": "r", "m": rng.choice(R3), "rd": rd, "rs1": rs1, "rs2": rs2}
    if k < 0.27:
        return {"k": "i", "m": rng.choice(IM), "rd": rd, "rs1": rs1, "imm": rng.choice([-2048, 2047, 0, -1, rng.randint(-2048, 2047)])}
    if k < 0.31:
        return {"k": "i", "m": rng.choice(SH), "rd": rd, "rs1": rs1, "imm": rng.randrange(32)}
    if k < 0.38:
        return {"k": "ld", "m": rng.choice(LD + ["jalr"]), "rd": rd, "rs1": rs1, "imm": rng.choice([-2048, 2047, 0, rng.randint(-2048, 2047)])}
    if k < 0.44:
        return {"k": "st", "m": rng.choice(ST), "rs1": rs1, "rs2": rs2, "imm": rng.choice([-2048, 2047, 0, rng.randint(-2048, 2047)])}
    if k < 0.48:
        return {"k": "u", "m": rng.choice(["lui", "auipc"]), "rd": rd, "imm": rng.choice([0, 1, 0x7FFFF, 0x80000, 0xFFFFF, rng.randrange(0, 1 << 20)])}
    if k < 0.58 and labels:
        return {"k": "brl", "m": rng.choice(BR), "rs1": rs1, "rs2": rs2, "label": rng.choice(labels), "off": rng.choice([None, None, 0, 4, 8, 0x10])}
    if k < 0.64 and labels:
        return {"k": "jall", "m": "jal", "rd": rd, "label": rng.choice(labels), "off": rng.choice([None, None, 0, 4, 0xC])}
    if k < 0.67:
        return {"k": "brn", "m": rng.choice(BR), "rs1": rs1, "rs2": rs2, "imm": rng.choice([-4096, 4094, 0, 2 * rng.randint(-64, 64)])}
    if k < 0.70:
        return {"k": "jaln", "m": "jal", "rd": rd, "abs": 2 * rng.randrange(0, 200)}
    if k < 0.73:
        return {"k": "ecall"}
    if k < 0.77:
        return {"k": "nop"}
    if k < 0.81:
        return {"k": "mv", "rd": rd, "rs": rs1}
    if k < 0.88:
        return {"k": "li", "rd": rd, "c": rng.choice(LI_CONSTS + [rng.getrandbits(32), -rng.getrandbits(31), rng.randint(-2048, 2047)])}
    if vars_:
        name = rng.choice(sorted(vars_))
        addr, w, n = vars_[name]
        idx = rng.randrange(n)
        use_idx = idx > 0 or rng.random() < 0.5
        kk = rng.random()
        if kk < 0.34:
            return {"k": "la", "rd": rd, "var": name, "idx": idx if use_idx else None}
        if kk < 0.67:
            # rd = x0 is legal in the documented grammar (t0 = &var, x0 unchanged); generated rarely: open finding K2
            return {"k": "ldv", "m": rng.choice(LD), "rd": rd if (rd or rng.random() < 0.3) else 6, "var": name, "idx": idx if use_idx else None}
        return {"k": "stv", "m": rng.choice(ST), "rs1": rs1, "rs2": rs2 or 7, "var": name, "idx": idx if use_idx else None}
    return {"k": "nop"}


PSEUDO = {"nop", "mv", "li", "la", "ldv", "stv"}


def gen_ast(rng, nstmt=None, ndata=5):
    data = gen_data(rng, ndata)
    vars_, img, _ = layout(data)
    n = nstmt if nstmt is not None else rng.randint(1, 24)
    labels = [rng.choice(["L%d", "loop_%d", "_x%dy", "Label%d", "end%d"]) % i for i in range(rng.randint(0, 4))]
    if len(labels) >= 2 and rng.random() < 0.15:
        # two labels that differ only in the case of their letters are two labels
        labels[1] = labels[0].swapcase() if labels[0].swapcase() != labels[0] else labels[1]
    stmts = [gen_stmt(rng, vars_, labels) for _ in range(n)]
    pos = {l: rng.randint(0, n) for l in labels}
    return {"data": data, "stmts": stmts, "labels": pos}


def var_addr(vars_, name, idx):
    a, w, n = vars_[name]
    return a + w * (idx or 0)


def expected_real(stmt, addr, laddr):
    """expected real instruction (fields) for a non-pseudo statement at byte address addr"""
    k = stmt["k"]
    if k == "r":
        return {"m": stmt["m"], "rd": stmt["rd"], "rs1": stmt["rs1"], "rs2": stmt["rs2"]}
    if k in ("i", "ld"):
        return {"m": stmt["m"], "rd": stmt["rd"], "rs1": stmt["rs1"], "imm": stmt["imm"]}
    if k == "st":
        return {"m": stmt["m"], "rs1": stmt["rs1"], "rs2": stmt["rs2"], "imm": stmt["imm"]}
    if k == "u":
        return {"m": stmt["m"], "rd": stmt["rd"], "imm": stmt["imm"]}
    if k == "brl":
        return {"m": stmt["m"], "rs1": stmt["rs1"], "rs2": stmt["rs2"], "imm": laddr[stmt["label"]] + (stmt["off"] or 0) - addr}
    if k == "brn":
        return {"m": stmt["m"], "rs1": stmt["rs1"], "rs2": stmt["rs2"], "imm": stmt["imm"]}
    if k == "jall":
        return {"m": "jal", "rd": stmt["rd"], "imm": laddr[stmt["label"]] + (stmt["off"] or 0) - addr}
    if k == "jaln":
        return {"m": "jal", "rd": stmt["rd"], "imm": stmt["abs"] - addr}
    if k == "ecall":
        return {"m": "ecall"}
    raise KeyError(k)


IMM_MASK = {"i12": 0xFFF, "sh": 0x1F, "b": 0x1FFF, "u": 0xFFFFF, "j": 0x1FFFFF}


def imm_mask(m):
    if m in SH:
        return 0x1F
    if m in BR:
        return 0x1FFF
    if m in ("lui", "auipc"):
        return 0xFFFFF
    if m == "jal":
        return 0x1FFFFF
    return 0xFFF


def same_fields(real_fields, exp):
    """compare the fields of a real instruction with the expected description; immediates modulo
    their encoding width (representation independent)"""
    if real_fields.get("m") != exp["m"]:
        return False
    if exp["m"] == "ecall":
        return True
    for f in ("rd", "rs1", "rs2"):
        if f in exp and real_fields.get(f) != exp[f]:
            return False
    if "imm" in exp:
        mk = imm_mask(exp["m"])
        if real_fields.get("imm") is None or (real_fields["imm"] & mk) != (exp["imm"] & mk):
            return False
    return True


# ----------------------------------------------------------------------------------------- rendering


class Renderer:
    """turns the same AST into one of many spellings; style = deterministic function of the seed"""

    def __init__(self, seed, plain=False):
        self.r = random.Random(seed)
        self.plain = plain

    def reg(self, n):
        if self.plain:
            return "x%d" % n
        return self.r.choice(["x%d" % n] + ABI[n])

    def num(self, v, allow_bin=True):
        if self.plain:
            return str(v)
        forms = [str(v)]
        a = abs(v)
        sign = "-" if v < 0 else ""
        forms.append(sign + "0x%x" % a)
        forms.append(sign + "0x%X" % a)
        if allow_bin and a < (1 << 34):
            forms.append(sign + "0b" + format(a, "b"))
        if a:
            forms.append(sign + "0x" + "0" * self.r.randint(1, 3) + "%x" % a)
        return self.r.choice(forms)

    def mn(self, m):
        if self.plain:
            return m
        return self.r.choice([m, m.upper(), m.capitalize(), m, "".join(c.upper() if self.r.random() < 0.5 else c for c in m)])

    def sep(self):
        return "," + ("" if self.plain else self.r.choice([" ", "", "  ", " \t"]))

    def var(self, stmt):
        if stmt["idx"] is None:
            return stmt["var"]
        # (an index is a plain decimal number; leading zeros do not change it)
        return stmt["var"] + ("[%d]" if self.plain or self.r.random() < 0.8 else self.r.choice(["[%02d]", "[%03d]"])) % stmt["idx"]

    def stmt(self, s):
        k, c = s["k"], self.sep
        if k == "r":
            return "%s %s%s%s%s%s" % (self.mn(s["m"]), self.reg(s["rd"]), c(), self.reg(s["rs1"]), c(), self.reg(s["rs2"]))
        if k == "i":
            return "%s %s%s%s%s%s" % (self.mn(s["m"]), self.reg(s["rd"]), c(), self.reg(s["rs1"]), c(), self.num(s["imm"]))
        if k == "ld":
            if s["m"] != "jalr" and (self.plain or self.r.random() < 0.5):
                return "%s %s%s%s(%s)" % (self.mn(s["m"]), self.reg(s["rd"]), c(), self.num(s["imm"]), self.reg(s["rs1"]))
            return "%s %s%s%s%s%s" % (self.mn(s["m"]), self.reg(s["rd"]), c(), self.reg(s["rs1"]), c(), self.num(s["imm"]))
        if k == "st":
            if self.plain or self.r.random() < 0.5:
                return "%s %s%s%s(%s)" % (self.mn(s["m"]), self.reg(s["rs2"]), c(), self.num(s["imm"]), self.reg(s["rs1"]))
            return "%s %s%s%s%s%s" % (self.mn(s["m"]), self.reg(s["rs2"]), c(), self.reg(s["rs1"]), c(), self.num(s["imm"]))
        if k == "u":
            return "%s %s%s%s" % (self.mn(s["m"]), self.reg(s["rd"]), c(), self.num(s["imm"]))
        if k == "brl":
            return "%s %s%s%s%s%s%s" % (self.mn(s["m"]), self.reg(s["rs1"]), c(), self.reg(s["rs2"]), c(), s["label"], "" if s["off"] is None else "+0x%x" % s["off"])
        if k == "brn":
            return "%s %s%s%s%s%s" % (self.mn(s["m"]), self.reg(s["rs1"]), c(), self.reg(s["rs2"]), c(), self.num(s["imm"]))
        if k == "jall":
            return "%s %s%s%s%s" % (self.mn("jal"), self.reg(s["rd"]), c(), s["label"], "" if s["off"] is None else "+0x%X" % s["off"])
        if k == "jaln":
            return "%s %s%s%s" % (self.mn("jal"), self.reg(s["rd"]), c(), self.num(s["abs"]))
        if k == "ecall":
            return self.mn("ecall")
        if k == "nop":
            return self.mn("nop")
        if k == "mv":
            return "%s %s%s%s" % (self.mn("mv"), self.reg(s["rd"]), c(), self.reg(s["rs"]))
        if k == "li":
            return "%s %s%s%s" % (self.mn("li"), self.reg(s["rd"]), c(), self.num(s["c"]))
        if k == "la":
            return "%s %s%s%s" % (self.mn("la"), self.reg(s["rd"]), c(), self.var(s))
        if k == "ldv":
            return "%s %s%s%s" % (self.mn(s["m"]), self.reg(s["rd"]), c(), self.var(s))
        if k == "stv":
            return "%s %s%s%s%s%s" % (self.mn(s["m"]), self.reg(s["rs1"]), c(), self.var(s), c(), self.reg(s["rs2"]))
        raise KeyError(k)

    def data_lines(self, data):
        out = []
        for d in data:
            ind = "" if self.plain else self.r.choice(["", "    ", "\t"])
            if d["type"] in ("byte", "half", "word"):
                out.append("%s%s: .%s %s" % (ind, d["name"], d["type"], self.sep().join(self.num(v) for v in d["vals"])))
            elif d["type"] == "string":
                out.append('%s%s: .string "%s"' % (ind, d["name"], d["s"]))
            else:
                out.append(("%s%s: .zero %d" if self.plain or self.r.random() < 0.8 else "%s%s: .zero %03d") % (ind, d["name"], d["n"]))
            if not self.plain and self.r.random() < 0.2:
                out[-1] += "  # " + self.r.choice(["comment", "x1, 5", ".word 3", "la x1, q", "item #2", "# x #", 'say "hi"', 'a "'])
        return out

    def program(self, ast, data_first=None, text_directive=None):
        r = self.r
        stmts, pos = ast["stmts"], ast["labels"]
        lines = []
        labels = sorted(pos)
        for i, s in enumerate(stmts):
            here = [l for l in labels if pos[l] == i]
            pre = ""
            for l in here:
                if l == here[-1] and (not self.plain and r.random() < 0.5):
                    pre = l + ":" + r.choice([" ", "  ", "\t"])
                else:
                    lines.append(("" if self.plain else r.choice(["", "  ", "\t"])) + l + ":" + ("" if self.plain else r.choice(["", " # lbl", "   ", " # lbl #1"])))
            if not self.plain and r.random() < 0.2:
                lines.append(r.choice(["", "   ", "# comment", "  # c , x1", "\t", "#", "## c", "# a # b"]))
            ind = "" if self.plain else r.choice(["", "  ", "\t", "        "])
            lines.append(ind + pre + self.stmt(s) + ("" if self.plain else r.choice(["", " # trailing", "  ", "\t#x", " # no. #3", " #a#b", ' # "quoted" text', " # it's", ' #"'])))
        for l in labels:
            if pos[l] == len(stmts):
                lines.append(l + ":")
        dl = self.data_lines(ast["data"])
        # line ends: LF, CR LF or (classic Mac) CR only - a text is a sequence of lines whatever separates them
        nl = "\n" if self.plain else r.choice(["\n", "\n", "\n", "\r\n", "\r"])
        return self._join(nl, ast, lines, dl, data_first, text_directive)

    def _join(self, nl, ast, lines, dl, data_first, text_directive):
        r = self.r

        class _J:
            def join(self_, parts):
                return nl.join(parts)

        J = _J()
        if dl:
            df = data_first if data_first is not None else (r.random() < 0.5)
            if df:
                return J.join([".data"] + dl + [".text"] + lines)
            td = text_directive if text_directive is not None else (r.random() < 0.5)
            return J.join(([".text"] if td else []) + lines + [".data"] + dl)
        td = text_directive if text_directive is not None else (not self.plain and r.random() < 0.3)
        return J.join(([".text"] if td else []) + lines)
