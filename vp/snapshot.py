"""Observable snapshot shared by C13 / C16 (DESIGN section 3): the tuple of every public inspection
result plus the architectural fields named in the properties' observe_at.  'Same state' is judged on
this snapshot and on behavioural continuation, never on private attributes."""

INSPECT_RISCV = [
    "get_register_entries",
    "get_data_memory_entries",
    "get_instruction_memory_entries",
    "get_data_cache_entries",
    "get_data_cache_stats",
    "get_instruction_cache_entries",
    "get_instruction_cache_stats",
    "svg",
    "get_performance_metrics_str",
    "get_output",
    "get_exit_code",
    "is_done",
    "has_instructions",
]


def conv(o):
    """deep conversion of inspection results (CacheRepr objects etc.) into comparable plain data"""
    if o is None or isinstance(o, (int, str, bool, float)):
        return o
    if isinstance(o, (list, tuple)):
        return tuple(conv(x) for x in o)
    if isinstance(o, dict):
        return tuple(sorted((str(k), conv(v)) for k, v in o.items()))
    if hasattr(o, "__int__") and type(o).__module__.startswith("fixedint"):
        return int(o)
    d = getattr(o, "__dict__", None)
    if d is not None:
        return (type(o).__name__,) + tuple((k, conv(v)) for k, v in sorted(d.items()))
    return repr(o)


KEEP_TIMER_LINES = [False]  # C16's step-driven twins never start the stop watch: there the two wall-clock lines are
# deterministic ("execution time: 0.00s", no instructions-per-second line) and are compared like everything else


def strip_timer(text):
    if KEEP_TIMER_LINES[0]:
        return text
    return "\n".join(l for l in text.splitlines() if not l.startswith("execution time") and not l.startswith("instructions per second"))


def call_inspection(sim, name):
    if name == "svg":
        if sim.mode == "five_stage_pipeline":
            return conv(sim.get_riscv_five_stage_svg_update_values())
        return conv(sim.get_riscv_single_stage_svg_update_values())
    if name == "get_performance_metrics_str":
        return strip_timer(sim.get_performance_metrics_str())
    return conv(getattr(sim, name)())


def riscv_snapshot(sim, order=None):
    """order: optional permutation of INSPECT_RISCV - the inspection functions are CALLED in that order, the
    result is always reported in canonical order (so two snapshots taken with different call orders compare
    equal iff no inspection influences another one)"""
    st = sim.state
    pm = st.performance_metrics
    got = {n: call_inspection(sim, n) for n in (order or INSPECT_RISCV)}
    parts = [("inspect:" + n, got[n]) for n in INSPECT_RISCV]
    parts += [
        ("pc", st.program_counter % (1 << 32)),
        ("counters", (pm.instruction_count, pm.branch_count, pm.procedure_count, pm.cycles, pm.flushes, pm.stalls)),
        ("latches", tuple(r.address_of_instruction for r in st.pipeline.pipeline_registers)),
        ("has_started", sim.has_started),
    ]
    return parts


def diff_names(a, b):
    return [x[0] for x, y in zip(a, b) if x != y] + (["length"] if len(a) != len(b) else [])


INSPECT_TOY = ["get_register_representations", "get_memory_table_entries", "get_toy_svg_update_values", "get_performance_metrics_str", "is_done", "has_instructions"]


def call_toy_inspection(sim, name):
    if name == "get_performance_metrics_str":
        return strip_timer(sim.get_performance_metrics_str())
    return conv(getattr(sim, name)())


def toy_snapshot(sim, order=None):
    st = sim.state
    pm = st.performance_metrics
    li = st.loaded_instruction
    got = {n: call_toy_inspection(sim, n) for n in (order or INSPECT_TOY)}
    parts = [("inspect:" + n, got[n]) for n in INSPECT_TOY]
    parts += [
        ("accu", int(st.accu)),
        ("pc", int(st.program_counter)),
        ("memory", tuple(sorted((a, int(v)) for a, v in st.memory.memory_file.items() if int(v)))),
        ("loaded", None if li is None else int(li)),
        ("counters", (pm.instruction_count, pm.cycles, pm.branch_count)),
        ("max_pc", st.max_pc),
        ("next_cycle", sim.next_cycle),
        ("has_started", sim.has_started),
    ]
    return parts
