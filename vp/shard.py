"""Runs one shard (or one replay case) in its own process:  python -m vp.shard <spec.json> <out.json>"""
import importlib
import json
import sys
import traceback

from .common import Result, repo_guard, Inconclusive


def reach_monitor():
    """sys.monitoring PY_START tool: records which functions of the repository were entered (callback
    returns DISABLE after the first hit of a code object, so the cost is ~0)."""
    import os

    hits = {}
    try:
        mon = sys.monitoring
        root = os.path.realpath(os.environ.get("VERIF_REPO", "/repo")) + os.sep
        tool = mon.PROFILER_ID
        mon.use_tool_id(tool, "vp-reach")

        def cb(code, offset):
            f = code.co_filename
            if f.startswith(root):
                hits.setdefault(f[len(root):], set()).add(code.co_qualname)
            return mon.DISABLE

        mon.register_callback(tool, mon.events.PY_START, cb)
        mon.set_events(tool, mon.events.PY_START)
    except Exception:
        pass
    return hits


def main():
    spec = json.load(open(sys.argv[1]))
    res = Result(spec["prop"])
    hits = reach_monitor()
    try:
        repo_guard()
        eng = importlib.import_module("vp.engines." + spec["engine"])
        if "replay_case" in spec:
            eng.run_case(spec["prop"], spec["replay_case"], res)
            res.evaluations += 1
        else:
            eng.run_shard(spec, res)
    except Inconclusive as e:
        res.inconclusive.append(str(e))
    except Exception:
        # a crash of the harness itself is never a verdict about the repository
        res.inconclusive.append("harness error: " + traceback.format_exc()[-1500:])
    out = res.to_json()
    out["reach"] = {f: sorted(q) for f, q in hits.items()}
    json.dump(out, open(sys.argv[2], "w"))


if __name__ == "__main__":
    main()
