"""Runs one shard (or one replay case) in its own process:  python -m vp.shard <spec.json> <out.json>"""
import importlib
import json
import sys
import traceback

from .common import Result, repo_guard, Inconclusive


def main():
    spec = json.load(open(sys.argv[1]))
    res = Result(spec["prop"])
    try:
        repo_guard()
        eng = importlib.import_module("vp.engines." + spec["engine"])
        if "replay_case" in spec:
            eng.run_case(spec["prop"], spec["replay_case"], res)
            res.evaluations += 1
        else:
            eng.run_shard(spec, res)
    except Inconclusive as e:
        res.inconclusive.append(str(e))
    except Exception:
        # a crash of the harness itself is never a verdict about the repository
        res.inconclusive.append("harness error: " + traceback.format_exc()[-1500:])
    json.dump(res.to_json(), open(sys.argv[2], "w"))


if __name__ == "__main__":
    main()
