"""Check driver:  python -m vp.runner <Cxx> [--tier quick|thorough] [--seed N] [--replay file]

Fans a tier out into shards (one subprocess each, watchdog per shard), aggregates monitor
counters, classifies violations against known_findings.json, writes replays and the evidence
file, and exits 0 (held) / 1 (VIOLATION line) / 2 (INCONCLUSIVE line)."""
import argparse
import concurrent.futures as cf
import importlib
import json
import os
import subprocess
import sys
import tempfile
import time

from .common import VERIF, h64
from . import known

ENGINE_OF = {
    "C01": "isa",
    "C02": "pipe",
    "C07": "pipe",
    "C08": "pipe",
    "C03": "cache",
    "C09": "cache",
    "C12": "cache",
    "C10": "policy",
    "C11": "icache",
    "C04": "asmrv",
    "C05": "asmrv",
    "C14": "asmrv",
    "C15": "errors",
    "C06": "toy",
    "C19": "toy",
    "C20": "toy",
    "C13": "lifecycle",
    "C16": "lifecycle",
    "C17": "fmt",
    "C18": "mem",
}

PY = os.environ.get("VERIF_PYTHON", "/venv/bin/python")


def child_env():
    env = dict(os.environ)
    env["PYTHONPATH"] = VERIF + os.pathsep + os.environ.get("VERIF_REPO", "/repo")
    env["PYTHONDONTWRITEBYTECODE"] = "1"
    env["PYTHONHASHSEED"] = "0"
    return env


def run_one(spec, tmpdir, idx, timeout):
    sp = os.path.join(tmpdir, "spec%d.json" % idx)
    op = os.path.join(tmpdir, "out%d.json" % idx)
    json.dump(spec, open(sp, "w"))
    try:
        p = subprocess.run([PY, "-m", "vp.shard", sp, op], cwd=VERIF, env=child_env(), timeout=timeout, capture_output=True, text=True)
    except subprocess.TimeoutExpired:
        return {"inconclusive": ["shard %d: watchdog (%ds) fired" % (idx, timeout)]}
    if not os.path.exists(op):
        return {"inconclusive": ["shard %d: no result (rc=%s) %s" % (idx, p.returncode, (p.stderr or "")[-800:])]}
    try:
        return json.load(open(op))
    except Exception as e:
        return {"inconclusive": ["shard %d: unreadable result %r" % (idx, e)]}


def main(argv=None):
    ap = argparse.ArgumentParser()
    ap.add_argument("prop")
    ap.add_argument("--tier", default=os.environ.get("VERIF_TIER") or "quick", choices=["quick", "thorough"])
    ap.add_argument("--seed", type=int, default=int(os.environ.get("VERIF_SEED") or 0))
    ap.add_argument("--replay")
    ap.add_argument("--jobs", type=int, default=int(os.environ.get("VERIF_JOBS") or 16))
    ap.add_argument("--no-evidence", action="store_true")
    a = ap.parse_args(argv)
    prop = a.prop
    if prop not in ENGINE_OF:
        print("unknown property", prop)
        return 2
    engname = ENGINE_OF[prop]
    sys.path.insert(0, VERIF)
    eng = importlib.import_module("vp.engines." + engname)
    t0 = time.time()
    tmpdir = tempfile.mkdtemp(prefix="vp-%s-" % prop, dir=os.environ.get("VERIF_TMP") or None)
    try:
        if a.replay:
            w = json.load(open(a.replay))
            specs = [{"engine": w.get("engine", engname), "prop": prop, "replay_case": w["case"]}]
        else:
            specs = eng.plan(prop, a.tier, a.seed)
            for s in specs:
                s.setdefault("engine", engname)
                s["prop"] = prop
                s["tier"] = a.tier
                s["seed"] = a.seed
        timeout = int(os.environ.get("VERIF_SHARD_TIMEOUT") or (900 if a.tier == "quick" else 5400))
        outs = []
        with cf.ThreadPoolExecutor(max_workers=a.jobs) as ex:
            futs = [ex.submit(run_one, s, tmpdir, i, timeout) for i, s in enumerate(specs)]
            for f in futs:
                outs.append(f.result())
    finally:
        import shutil

        shutil.rmtree(tmpdir, ignore_errors=True)

    # ---------------------------------------------------------------- aggregate
    counters, nt, samples, violations, inconcl, other, other_first = {}, set(), [], [], [], {}, {}
    evaluations = states = transitions = 0
    exhaustive = None
    n_exh = 0
    extra = {}
    reach = {}
    for o in outs:
        for f, qs in o.get("reach", {}).items():
            reach.setdefault(f, set()).update(qs)
    for o in outs:
        evaluations += o.get("evaluations", 0)
        states += o.get("states", 0)
        transitions += o.get("transitions", 0)
        for k, v in o.get("counters", {}).items():
            counters[k] = counters.get(k, 0) + v
        nt.update(o.get("nt", []))
        for s in o.get("samples", []):
            if len(samples) < 6:
                samples.append(s)
        violations += o.get("violations", [])
        inconcl += o.get("inconclusive", [])
        for k, v in o.get("other", {}).items():
            other[k] = other.get(k, 0) + v
        for k, v in o.get("other_first", {}).items():
            other_first.setdefault(k, v)
        if o.get("exhaustive"):
            n_exh += 1
        for k, v in o.get("extra", {}).items():
            extra.setdefault(k, v)

    # 'exhaustive' is claimed for the run as a whole only if EVERY shard enumerated its finite space completely;
    # otherwise the completely enumerated sub-spaces are listed by the engines' own descriptions (extra keys)
    if n_exh:
        exhaustive = n_exh == len(outs)
        extra["shards_enumerating_a_finite_subspace_completely"] = n_exh
    # reach: which functions of the property's anchor files were entered by this run
    anchors = []
    try:
        for line in open(os.path.join(VERIF, "properties.jsonl")):
            pj = json.loads(line)
            if pj["id"] == prop:
                anchors = pj["anchors"]["files"]
    except Exception:
        pass
    anchor_hits = {f: len(reach.get(f, ())) for f in anchors}
    if not a.replay and anchors and reach and not any(anchor_hits.values()):
        inconcl.append("no function of any anchor file of %s was entered (monitors bypassed?)" % prop)
    # reach discipline: deciding monitors that never fired -> inconclusive
    if not a.replay:
        for key in getattr(eng, "REQUIRED", {}).get(prop, []):
            if counters.get(key, 0) <= 0:
                inconcl.append("deciding monitor/event class '%s' was never reached" % key)

    # known findings
    kf = known.load()
    new_v, known_seen = [], {}
    for v in violations:
        e = known.classify(v, kf)
        if e:
            known_seen.setdefault(e["id"], {"entry": e, "n": 0})["n"] += 1
        else:
            new_v.append(v)

    os.makedirs(os.path.join(VERIF, "replays"), exist_ok=True)
    replay_paths = []
    seen_kinds = {}
    for v in new_v:
        if seen_kinds.get(v["kind"], 0) >= 3:
            continue
        seen_kinds[v["kind"]] = seen_kinds.get(v["kind"], 0) + 1
        path = os.path.join("replays", "%s-%s-%016x.json" % (prop, v["kind"].replace("/", "_").replace(" ", "_")[:40], h64(v["case"])))
        json.dump({"property": prop, "engine": engname, "kind": v["kind"], "msg": v["msg"], "case": v["case"], "tier": a.tier, "seed": a.seed}, open(os.path.join(VERIF, path), "w"), indent=1, default=str)
        replay_paths.append((v, path))

    wall = time.time() - t0
    verdict = "violated" if new_v else ("inconclusive" if inconcl else "held")
    if not a.no_evidence and not a.replay:
        ev = {
            "property_id": prop,
            "tier": a.tier,
            "seed": a.seed,
            "level": "exploration",
            "coverage": {
                "evaluations": evaluations,
                "distinct_nontrivial": len(nt),
                "rule": eng.RULE.get(prop, ""),
                "samples": samples,
                "event_counters": dict(sorted(counters.items())),
                "verdict": verdict,
                "shards": len(specs),
                "known_findings_seen": {k: v["n"] for k, v in known_seen.items()},
                "violations_of_other_properties_seen": other,
                "inconclusive_reasons": inconcl[:10],
                "anchor_functions_hit": anchor_hits,
                "repo_functions_entered": sum(len(v) for v in reach.values()),
            },
            "assumptions": getattr(eng, "ASSUMPTIONS", {}).get(prop, []),
            "wall_s": round(wall, 2),
            "violations": len(new_v),
        }
        if states:
            ev["coverage"]["states"] = states
            ev["coverage"]["transitions"] = transitions
        if exhaustive is not None:
            ev["coverage"]["exhaustive"] = bool(exhaustive)
        ev["coverage"].update(extra)
        os.makedirs(os.path.join(VERIF, "evidence"), exist_ok=True)
        json.dump(ev, open(os.path.join(VERIF, "evidence", prop + ".json"), "w"), indent=1, default=str)

    # ---------------------------------------------------------------- report
    print("%s tier=%s seed=%d engine=%s shards=%d evaluations=%d distinct_nontrivial=%d wall=%.1fs" % (prop, a.tier, a.seed, engname, len(specs), evaluations, len(nt), wall))
    shown = sorted(counters.items())
    print("  observed: " + ", ".join("%s=%d" % kv for kv in shown[:60]))
    if states:
        print("  states=%d transitions=%d exhaustive=%s" % (states, transitions, exhaustive))
    if other:
        print("  note: violations attributed to other properties seen (not deciding here): %s %s" % (other, other_first))
    for k, v in known_seen.items():
        print("KNOWN-FINDING: property=%s %s [%s, %d occurrence(s)]" % (prop, v["entry"]["what"], k, v["n"]))
    for v, path in replay_paths:
        print("  %s: %s" % (v["kind"], v["msg"][:300].replace("\n", " | ")))
        print("VIOLATION property=%s replay=%s" % (prop, path))
    if new_v:
        return 1
    if inconcl:
        for r in inconcl[:5]:
            print("INCONCLUSIVE property=%s reason=%s" % (prop, r.replace("\n", " | ")[:600]))
        return 2
    print("HELD property=%s on everything explored" % prop)
    return 0


if __name__ == "__main__":
    sys.exit(main())
