"""Engine `icache` - C11: instruction cache transparency, fetch accounting, reset/reload.

Monitor: wrapper on InstructionMemorySystem.read_instruction (instance level) logs every fetch
(address, returned object); the returned object must be the instruction installed at that address;
the reference cache R4 replays the logged fetch addresses for the expected hit count; counters and
per-step penalty conservation are read from the public stats."""
from ..common import guarded, rng_for, h64, make_riscv, install_program, build_instr, set_regs, preload_mem, real_regs, instr_text, M32
from ..refmodels.refcache import RefCache
from ..refmodels.rv32 import SeqRef
from ..refmodels.timed5 import TimedRef
from ..gen import progs as G
from . import pipe

RULE = {
    "C11": "(geometry, program, mode) triples: random I-cache geometries/policies/penalties x C02-style programs (loops smaller and larger than the cache, jumps into the middle of a block, blocks reaching past the program end) in single-cycle and five-stage mode, "
    "plus reset/reload sequences on the memory-system and the simulation level; every fetch is observed. non-trivial = run with >=1 hit and >=1 eviction in the reference cache (reload cases: previous program had resident blocks); distinct by case hash."
}
ASSUMPTIONS = {"C11": ["reference cache R4 fed the observed fetch address sequence (five-stage mode fetches wrong-path and refetched instructions too; they count by definition)", "results with I-cache on are compared with a run without I-cache and with the sequential reference"]}
REQUIRED = {"C11": ["fetches_observed", "fetch_identity_checks", "hits", "misses", "evictions", "single_runs", "five_runs", "reload_memsys", "reload_sim", "penalty_steps_with_miss", "results_vs_uncached", "sparse_fetches", "sparse_programs"]}


def plan(prop, tier, seed):
    q = tier == "quick"
    return [{"kind": "directed", "shard": 0}] + [{"kind": "prog", "n": 60 if q else 1600, "shard": i} for i in range(10 if q else 16)] + [{"kind": "reload", "n": 40 if q else 800, "shard": i} for i in range(3 if q else 8)] + [{"kind": "sparse", "n": 60 if q else 1500, "shard": i} for i in range(2 if q else 8)]


def rand_icfg(rng):
    policy = rng.choice(["lru", "plru"])
    return {"ib": rng.choice([0, 0, 1, 2, 3]), "bb": rng.choice([0, 1, 2, 3]), "assoc": rng.choice([1, 2, 4, 8] if policy == "plru" else [1, 2, 3, 4, 5]), "policy": policy, "pen": rng.choice([0, 1, 2, 7, 20])}


def same_instr(a, b):
    """same instruction = same class and same fields (identity is not required: a cache may hold copies)"""
    return a is b or (type(a) is type(b) and vars(a) == vars(b))


class FetchLog:
    def __init__(self, sim, installed, res, case):
        self.log = []
        self.bad = None
        im = sim.state.instruction_memory
        orig = im.read_instruction

        def wrap(address, _orig=orig):
            r = _orig(address)
            self.log.append(address)
            res.count("fetches_observed")
            want = installed.get(address)
            res.count("fetch_identity_checks")
            if want is None or not same_instr(r, want):
                if self.bad is None:
                    self.bad = "fetch at %r returned %r, uncached instruction memory holds %r" % (address, r, want)
            return r

        im.read_instruction = wrap


def check_stats(sim, flog, cfg, res, case, mode):
    st = sim.state.instruction_memory.get_cache_stats()
    got = (int(st["hits"]), int(st["accesses"]))
    rc = RefCache(cfg["ib"], cfg["bb"], cfg["assoc"], cfg["policy"], False)
    last = None
    for a in flog.log:
        last, _ = rc.access(a, False)
    res.count("hits", rc.hits)
    res.count("misses", rc.accesses - rc.hits)
    res.count("evictions", rc.evictions)
    if got != (rc.hits, rc.accesses) or (flog.log and bool(st["last_hit"]) != bool(last)):
        res.violation("C11", "fetch-accounting", "%s mode: (hits, accesses) real=%r, reference cache fed the %d observed fetch addresses=%r" % (mode, got, len(flog.log), (rc.hits, rc.accesses)), case)
        return None
    return rc


def run_prog(case, res):
    """each mode runs twice: without and with the instruction cache (same data cache, if any).  What the I-cache
    must not change is judged against the run WITHOUT I-cache, so a defect elsewhere is not blamed on it."""
    from architecture_simulator.simulation.runtime_errors import InstructionExecutionException

    prog = {4 * i: d for i, d in enumerate(case["prog"])}
    cfg = case["icache"]
    nt = False
    for mode in ("single", "five"):
        finals = {}
        finals_incs = []
        for ic in (None, cfg):
            flog = None
            if mode == "five":
                ref = TimedRef(prog, case["regs"], case["mem"], interlock=True)
                ref.run(case["max_instr"])
                holder = {}

                def on_sim(sim):
                    installed = dict(sim.state.instruction_memory.instruction_memory.instructions) if ic else {}
                    if ic:
                        holder["flog"] = FetchLog(sim, installed, res, case)

                c5 = dict(case, kind="pipe", hz=True, icache=ic)
                out = pipe.run_five(c5, res, "C11", ref, on_sim=on_sim)
                if out is None:
                    if ic is not None and pipe.last_was_value_violation():
                        res.violation("C11", "result-changed", "five-stage: the value/order monitors are silent without I-cache but fire with it", case)
                    elif ic is not None and pipe.LAST["kind"] == "cycle-increment":
                        res.violation("C11", "miss-penalty", "five-stage: the cycle/penalty monitor is silent without I-cache but fires with it", case)
                    return
                sim, flog = out["sim"], holder.get("flog")
                faulted = out["rfault"] is not None
                if ic:
                    res.count("five_runs")
            else:
                sim = make_riscv("single", dcache=case.get("dcache"), icache=ic)
                install_program(sim, case["prog"])
                set_regs(sim, case["regs"])
                preload_mem(sim, case["mem"])
                if ic:
                    installed = dict(sim.state.instruction_memory.instruction_memory.instructions)
                    flog = FetchLog(sim, installed, res, case)
                pm = sim.state.performance_metrics
                k = 0
                faulted = False
                prev_c, prev_m = pm.cycles, 0
                incs = []
                while not sim.is_done() and k < case["max_instr"]:
                    try:
                        sim.step()
                    except InstructionExecutionException:
                        faulted = True
                        break
                    except Exception as e:
                        if ic is None:
                            return  # crashes without I-cache too: not an I-cache matter
                        res.violation("C11", "result-changed", "single-cycle step raised %r with the I-cache on, not without it" % (e,), case)
                        return
                    k += 1
                    incs.append(pm.cycles - prev_c)
                    if ic:
                        # the I-cache's share of this step's cycles = this step's increment minus the increment of the
                        # same step in the run without I-cache (same data cache): exactly penalty x new fetch misses
                        st = sim.state.instruction_memory.get_cache_stats()
                        miss = int(st["accesses"]) - int(st["hits"])
                        if miss != prev_m:
                            res.count("penalty_steps_with_miss")
                        base = finals_incs[k - 1] if k - 1 < len(finals_incs) else None
                        if base is not None and incs[-1] - base != cfg["pen"] * (miss - prev_m):
                            res.violation("C11", "miss-penalty", "single-cycle step %d: cycle counter advanced by %d (%d without I-cache) with %d new fetch misses (penalty %d)" % (k, incs[-1], base, miss - prev_m, cfg["pen"]), case)
                            return
                        prev_m = miss
                    prev_c = pm.cycles
                if not ic:
                    finals_incs = incs
                if ic:
                    res.count("single_runs")
                    if not faulted:
                        st = sim.state.instruction_memory.get_cache_stats()
                        if int(st["accesses"]) != pm.instruction_count or len(flog.log) != pm.instruction_count:
                            res.violation("C11", "fetch-per-instruction", "single-cycle: %d executed instructions, access counter %s, %d fetches observed" % (pm.instruction_count, st["accesses"], len(flog.log)), case)
                            return
            if ic:
                if flog.bad:
                    res.violation("C11", "fetch-transparency", "%s mode: %s" % (mode, flog.bad), case)
                    return
                rc = check_stats(sim, flog, cfg, res, case, mode)
                if rc is None:
                    return
                if rc.hits and rc.evictions:
                    nt = True
            finals[ic is not None] = (real_regs(sim), sim.state.output, sim.state.exit_code, pipe.mem_image(sim), bool(sim.is_done()), faulted)
        res.count("results_vs_uncached")
        if finals[True] != finals[False]:
            names = ["registers", "output", "exit code", "memory", "done", "faulted"]
            res.violation("C11", "result-changed", "%s mode: with the I-cache on %s differ from the same run without I-cache" % (mode, [names[i] for i in range(6) if finals[True][i] != finals[False][i]]), case)
            return
    if nt:
        res.nontrivial(h64(case))


def listing_text(instrs):
    return "\n".join(instr_text(d).replace("jal x", "jal x") for d in instrs)


def asm_text(instrs, base=0):
    """assembler text of a direct program (jal needs an absolute target)"""
    out = []
    for i, d in enumerate(instrs):
        if d["m"] == "jal":
            out.append("jal x%d, %d" % (d["rd"], base + 4 * i + d["imm"]))
        else:
            out.append(instr_text(d))
    return "\n".join(out)


def simple_prog(rng, n):
    return [G._alu(rng, [1, 2, 3, 5]) for _ in range(n)]


def run_reload(case, res):
    from architecture_simulator.uarch.memory.instruction_memory_cache_system import InstructionMemoryCacheSystem
    from architecture_simulator.uarch.memory.instruction_memory import InstructionMemory
    from architecture_simulator.uarch.riscv.riscv_performance_metrics import RiscvPerformanceMetrics

    cfg = case["icache"]
    p1, p2 = case["p1"], case["p2"]
    # ---- memory-system level
    pm = RiscvPerformanceMetrics()
    ims = InstructionMemoryCacheSystem(InstructionMemory(), cfg["ib"], cfg["bb"], cfg["assoc"], pm, cfg["pen"], cfg["policy"])
    o1 = [build_instr(d, 4 * i) for i, d in enumerate(p1)]
    # (the program is handed over as a list, a tuple or a one-shot iterator: a sequence of instructions is a sequence)
    shape = (len(p1) + len(p2)) % 3
    ims.write_instructions(o1 if shape == 0 else (tuple(o1) if shape == 1 else iter(o1)))
    if shape:
        res.count("programs_written_from_tuple_or_iterator")
    for a in case["fetch1"]:
        if a < 4 * len(o1):
            r = ims.read_instruction(a)
            if not same_instr(r, o1[a // 4]):
                res.violation("C11", "fetch-transparency", "memory-system level: fetch %d returned %r" % (a, r), case)
                return
    had_resident = any(b.valid_bit == "1" for s in ims.cache_repr().sets for b in s.blocks)
    ims.reset()
    # right after the reset nothing of the previous program remains - also when it was never fetched
    if ims.has_instructions() or ims.get_representation() or any(ims.instruction_at_address(4 * i) for i in range(len(o1))):
        res.violation("C11", "reset-keeps-program", "after reset() (previous program fetched %d times) the instruction memory still holds instructions" % len(case["fetch1"]), case)
        return
    o2 = [build_instr(d, 4 * i) for i, d in enumerate(p2)]
    ims.write_instructions(o2 if shape == 0 else (iter(o2) if shape == 1 else tuple(o2)))
    res.count("reload_memsys")
    st = ims.get_cache_stats()
    if (int(st["hits"]), int(st["accesses"])) != (0, 0) or st["last_hit"]:
        res.violation("C11", "reload-counters", "after reset()+reload counters are %r" % (st,), case)
        return
    if any(b.valid_bit == "1" for s in ims.cache_repr().sets for b in s.blocks):
        res.violation("C11", "reload-stale-block", "after reset()+reload a cache block is still valid", case)
        return
    c0 = pm.cycles
    rc = RefCache(cfg["ib"], cfg["bb"], cfg["assoc"], cfg["policy"], False)
    for a in case["fetch2"]:
        if a < 4 * len(o2):
            r = ims.read_instruction(a)
            rc.access(a, False)
            if not same_instr(r, o2[a // 4]):
                res.violation("C11", "reload-stale-instruction", "after reload fetch %d returned %r, new program holds %r" % (a, r, o2[a // 4]), case)
                return
    st = ims.get_cache_stats()
    if (int(st["hits"]), int(st["accesses"])) != (rc.hits, rc.accesses) or pm.cycles - c0 != cfg["pen"] * (rc.accesses - rc.hits):
        res.violation("C11", "reload-accounting", "after reload (hits, accesses)=%r reference=%r cycles+%d" % (st, (rc.hits, rc.accesses), pm.cycles - c0), case)
        return
    # ---- simulation level: load_program(P1), run, load_program(P2)
    for mode in ("single", "five"):
        sim = make_riscv(mode, icache=cfg)
        sim.load_program(asm_text(p1))
        k = 0
        while not sim.is_done() and k < (0 if case.get("never_run") else 200):
            sim.step()
            k += 1
        if case.get("bad_between"):
            # a failing load in between (also when the first program was never run): nothing of it may remain
            try:
                sim.load_program("addi x1, x0")
            except Exception:
                pass
            if sim.has_instructions() or sim.get_instruction_memory_entries():
                res.violation("C11", "reset-keeps-program", "%s: after a failed load the previous program is still in the instruction memory" % mode, case)
                return
        sim.load_program(asm_text(p2))
        res.count("reload_sim")
        st = sim.get_instruction_cache_stats()
        if (int(st["hits"]), int(st["accesses"])) != (0, 0):
            res.violation("C11", "reload-counters", "%s: after load_program of a second program I-cache counters are %r" % (mode, st), case)
            return
        if any(b.valid_bit == "1" for s in sim.get_instruction_cache_entries().sets for b in s.blocks):
            res.violation("C11", "reload-stale-block", "%s: after load_program of a second program a cache block is still valid" % mode, case)
            return
        # fetches after the reload must return the new program
        im = sim.state.instruction_memory
        want = {a: r for a, r in im.get_representation()}
        for a in case["fetch2"]:
            if a in want:
                r = im.read_instruction(a)
                if repr(r) != want[a] or repr(r) != repr(build_instr(p2[a // 4], a)):
                    res.violation("C11", "reload-stale-instruction", "%s: after reload fetch %d returned %r, listing says %r" % (mode, a, r, want[a]), case)
                    return
    if had_resident:
        res.nontrivial(h64(case))


def run_sparse_case(case, res):
    """instruction memory filled through the public write_instruction() at SPARSE addresses (gaps inside cache
    blocks): every fetch through the cache system must return what the uncached instruction memory holds there;
    a program that jumps over the gaps must give the same result with and without I-cache in both modes."""
    from architecture_simulator.uarch.memory.instruction_memory_cache_system import InstructionMemoryCacheSystem
    from architecture_simulator.uarch.memory.instruction_memory import InstructionMemory
    from architecture_simulator.uarch.riscv.riscv_performance_metrics import RiscvPerformanceMetrics

    cfg = case["icache"]
    if case.get("range"):
        # an instruction memory whose address range does not end (or start) on a block boundary (public constructor
        # argument): the block straddling the bound is filled with the slots that exist
        rg = range(*case["range"])
        res.count("custom_instruction_address_ranges")
        plain = InstructionMemory(address_range=rg)
        ims = InstructionMemoryCacheSystem(InstructionMemory(address_range=rg), cfg["ib"], cfg["bb"], cfg["assoc"], RiscvPerformanceMetrics(), cfg["pen"], cfg["policy"])
    else:
        plain = InstructionMemory()
        ims = InstructionMemoryCacheSystem(InstructionMemory(), cfg["ib"], cfg["bb"], cfg["assoc"], RiscvPerformanceMetrics(), cfg["pen"], cfg["policy"])
    objs = {}
    prefilled = len(case["image"]) % 3 == 0
    for a, d in case["image"]:
        o = build_instr(d, a)
        objs[a] = o
        plain.write_instruction(a, o)
        if not prefilled:
            ims.write_instruction(a, o)
    if prefilled:
        # the lower instruction memory is handed over ALREADY FILLED (its public `instructions` field), and one more
        # instruction is written through the lower object the caller still holds: the cache is a view of that memory
        items = list(objs.items())
        lower = InstructionMemory(instructions=dict(items[:-1]), **({"address_range": range(*case["range"])} if case.get("range") else {}))
        ims = InstructionMemoryCacheSystem(lower, cfg["ib"], cfg["bb"], cfg["assoc"], RiscvPerformanceMetrics(), cfg["pen"], cfg["policy"])
        if items:
            lower.write_instruction(*items[-1])
        res.count("lower_instruction_memory_filled_by_the_caller")
    rc = RefCache(cfg["ib"], cfg["bb"], cfg["assoc"], cfg["policy"], False)
    for a in case["fetches"]:
        if isinstance(a, list):
            # the identical instruction is written again to an address that may already be cached: a write is not a
            # fetch (counters and replacement order are those of the fetch addresses alone)
            ims.write_instruction(a[1], objs[a[1]])
            plain.write_instruction(a[1], objs[a[1]])
            res.count("rewrites_between_fetches")
            continue
        r = ims.read_instruction(a)
        rc.access(a, False)
        res.count("sparse_fetches")
        if not same_instr(r, plain.read_instruction(a)):
            res.violation("C11", "fetch-transparency", "sparse instruction memory: fetch at %d returned %r, uncached instruction memory holds %r" % (a, r, plain.read_instruction(a)), case)
            return
    st = ims.get_cache_stats()
    if (int(st["hits"]), int(st["accesses"])) != (rc.hits, rc.accesses):
        res.violation("C11", "fetch-accounting", "sparse instruction memory: (hits, accesses)=%r reference=%r" % ((st["hits"], st["accesses"]), (rc.hits, rc.accesses)), case)
        return
    if case.get("range"):
        res.nontrivial(h64(case))
        return
    # program level: same image with and without I-cache, both modes
    for mode in ("single", "five"):
        outs = []
        for ic in (None, cfg):
            sim = make_riscv(mode, icache=ic)
            for a, d in case["image"]:
                sim.state.instruction_memory.write_instruction(a, build_instr(d, a))
            k = 0
            try:
                while not sim.is_done() and k < 300:
                    sim.step()
                    k += 1
            except Exception as e:
                outs.append(("EXC", repr(e)[:80]))
                continue
            outs.append((real_regs(sim), sim.state.output, sim.state.exit_code, bool(sim.is_done())))
        res.count("sparse_programs")
        if outs[0] != outs[1]:
            res.violation("C11", "result-changed", "%s mode, sparse instruction memory: result with I-cache differs from the uncached result" % mode, case)
            return
    res.nontrivial(h64(case))


def gen_sparse_case(rng):
    n = rng.randint(3, 14)
    slots = sorted(rng.sample(range(0, 40), n))
    if 0 not in slots:
        slots[0] = 0
    slots = sorted(set(slots))
    image = []
    for i, sl in enumerate(slots):
        nxt = slots[i + 1] if i + 1 < len(slots) else None
        if nxt is not None and nxt != sl + 1:
            d = {"m": "jal", "rd": 0, "imm": 4 * (nxt - sl)}  # jump over the gap
        else:
            d = G._alu(rng, [1, 2, 3, 5])
        image.append((4 * sl, d))
    fetches = [4 * rng.choice(slots) for _ in range(rng.randint(5, 40))]
    if rng.random() < 0.4:
        fetches = [f_ if rng.random() > 0.2 else ["w", 4 * rng.choice(slots)] for f_ in fetches]
    case = {"kind": "sparse", "icache": rand_icfg(rng), "image": image, "fetches": fetches}
    if rng.random() < 0.3:
        lo = 4 * slots[0] if rng.random() < 0.5 else 0
        if rng.random() < 0.5:
            # image shifted up so that the range can start inside a block
            sh = 4 * rng.choice([1, 2, 3, 5])
            case["image"] = [(a + sh, d) for a, d in image]
            case["fetches"] = [(a + sh) if not isinstance(a, list) else ["w", a[1] + sh] for a in fetches]
            lo = sh
        hi = max(a for a, _ in case["image"]) + 4 * rng.choice([1, 1, 2, 3])
        case["range"] = [lo, hi]
    return case


def directed_cases():
    D = []
    loop = [{"m": "addi", "rd": 5, "rs1": 0, "imm": 6}, {"m": "addi", "rd": 6, "rs1": 6, "imm": 1}, {"m": "add", "rd": 7, "rs1": 7, "rs2": 6}, {"m": "xor", "rd": 8, "rs1": 7, "rs2": 6}, {"m": "addi", "rd": 5, "rs1": 5, "imm": -1}, {"m": "bne", "rs1": 5, "rs2": 0, "imm": -16}, {"m": "addi", "rd": 9, "rs1": 0, "imm": 1}]
    for cfg in ({"ib": 0, "bb": 0, "assoc": 1, "policy": "lru", "pen": 3}, {"ib": 1, "bb": 1, "assoc": 1, "policy": "lru", "pen": 2}, {"ib": 0, "bb": 2, "assoc": 2, "policy": "plru", "pen": 7}, {"ib": 2, "bb": 3, "assoc": 1, "policy": "lru", "pen": 1}, {"ib": 0, "bb": 1, "assoc": 2, "policy": "lru", "pen": 0}):
        D.append({"kind": "prog", "prog": loop, "regs": {}, "mem": {}, "icache": cfg, "max_instr": 200})
    # jump into the middle of a block; block reaching past the program end
    D.append({"kind": "prog", "prog": [{"m": "jal", "rd": 0, "imm": 20}] + [dict(pipe.NOP)] * 4 + [{"m": "addi", "rd": 1, "rs1": 0, "imm": 1}, {"m": "jal", "rd": 0, "imm": -20}, dict(pipe.NOP)][:2] + [{"m": "addi", "rd": 2, "rs1": 0, "imm": 2}], "regs": {}, "mem": {}, "icache": {"ib": 0, "bb": 2, "assoc": 1, "policy": "lru", "pen": 4}, "max_instr": 60})
    D.append({"kind": "reload", "icache": {"ib": 0, "bb": 1, "assoc": 2, "policy": "lru", "pen": 5}, "p1": loop, "p2": [{"m": "addi", "rd": 1, "rs1": 0, "imm": 11}, {"m": "addi", "rd": 2, "rs1": 0, "imm": 22}, {"m": "addi", "rd": 3, "rs1": 0, "imm": 33}], "fetch1": [0, 4, 8, 12, 0, 4], "fetch2": [0, 4, 8, 0]})
    return D


def run_case(prop, case, res):
    if case["kind"] == "prog":
        run_prog(case, res)
    elif case["kind"] == "sparse":
        run_sparse_case(case, res)
    else:
        run_reload(case, res)


def run_shard(spec, res):
    rng = rng_for("C11", spec["tier"], spec["seed"], spec["kind"], spec["shard"])
    if spec["kind"] == "directed":
        for c in directed_cases():
            guarded(run_case, "C11", c, res)
            res.evaluations += 1
        return
    for it in range(spec["n"]):
        if spec["kind"] == "prog":
            k = rng.random()
            if k < 0.5:
                prog, regs = G.structured_program(rng, size=rng.randint(4, 45), aligned=True, faults=rng.random() < 0.1)
            else:
                prog, regs = G.soup_program(rng, rng.randint(1, 40), aligned=True), G.soup_regs(rng)
            case = {"kind": "prog", "prog": prog, "regs": regs, "mem": G.init_mem(rng), "icache": rand_icfg(rng), "max_instr": 300}
            if rng.random() < 0.3:
                case["dcache"] = pipe.rand_cache(rng)
        elif spec["kind"] == "sparse":
            case = gen_sparse_case(rng)
        else:
            n1, n2 = rng.randint(1, 30), rng.randint(1, 30)
            case = {"kind": "reload", "icache": rand_icfg(rng), "p1": simple_prog(rng, n1), "p2": simple_prog(rng, n2), "fetch1": [4 * rng.randrange(n1) for _ in range(rng.choice([0, 0, rng.randint(1, 40)]))], "fetch2": [4 * rng.randrange(n2) for _ in range(rng.randint(1, 40))], "bad_between": rng.random() < 0.5, "never_run": rng.random() < 0.4}
        guarded(run_case, "C11", case, res)
        res.evaluations += 1
        if it < 1:
            res.sample(case, 4)
