"""Engine `errors` - C15: every failure of load_program is a ParserException subclass carrying the 1-based
number of an existing line (or the dedicated MemorySizeException / MemoryAddressError for programs that
do not fit); every run-time failure is an InstructionExecutionException carrying address + printed form.

Monitor: classification of the outcome of every load_program()/step() call at the API boundary."""
import random
import signal

from ..common import guarded, rng_for, h64, make_riscv, install_program, set_regs, preload_mem, M32
from ..refmodels.rv32 import SeqRef, Fault
from ..refmodels.timed5 import TimedRef
from ..gen import asm_rv as A
from ..gen import progs as G

RULE = {
    "C15": "texts: AST-generated RISC-V and TOY programs with 1-3 injected lexical/structural faults (hostile numeric literals in every literal position, unknown labels/variables/directives, duplicated or misplaced segments, declarations in .text, instructions in .data, dropped commas, truncated lines, over-long programs, huge .zero), plus token soups; "
    "run-time: faulting programs in both pipeline modes. every outcome is classified. non-trivial = distinct (fault kind, outcome class) pairs and distinct faulting texts that raised; distinct by hash of the text.",
}
ASSUMPTIONS = {"C15": ["'terminates' is restated as: returns within 30 s of CPU time per text (watchdog firing = inconclusive)", "line numbers are judged against text.splitlines(); the line text of the exception is recorded as a diagnostic only"]}
REQUIRED = {"C15": ["rv_texts", "toy_texts", "parser_exceptions", "loads_ok", "memory_size_or_address_errors", "soups", "runtime_faults_single", "runtime_faults_five", "hostile_literals_injected", "line_numbers_checked", "runtime_cases_with_cache", "failing_address_footprints_checked"]}

HOSTILE = ["9" * 4400, "-" + "1" * 4301, "0x" + "f" * 5000, "010", "-01", "00", "007", "0x", "0b", "0b2", "0X1", "0B1", "1e3", "1_0", "1_000", "１２", "١٢", "123456789012345678901234567890", "-123456789012345678901234567890", "+5", "--5", "0x-5", "5-", "0xg", "1.5", "''", "0x1_0", "0o17", "0b", "-", "0b102", "09", "-0", "-00", "0x00000000000000000000000000001", "1 2", "²", "0٠",
           # well-formed numbers of the other bases: legal in most positions, unexpected in some (indices, counts, shift amounts)
           "0x2", "0b1", "0x0", "0b0", "-2", "0X2", "0B1", "0x1F", "-0x1"]


def plan(prop, tier, seed):
    q = tier == "quick"
    return [{"kind": "directed", "shard": 0}] + [{"kind": "rv", "n": 330 if q else 13000, "shard": i} for i in range(12 if q else 16)] + [{"kind": "toy", "n": 500 if q else 5000, "shard": i} for i in range(2 if q else 6)] + [{"kind": "runtime", "n": 150 if q else 2500, "shard": i} for i in range(2 if q else 6)]


class Watchdog(Exception):
    pass


def _alarm(signum, frame):
    raise Watchdog()


def front_end_view(exc, res, case):
    """the outlet the statement names: the web front end asks gui.webgui.get_last_error() for (class name, message,
    line number | address) of the exception the interpreter recorded last, and highlights that line / instruction.
    Returns False after reporting a violation."""
    import sys

    try:
        from architecture_simulator.gui import webgui
    except Exception:
        return True  # front-end glue not importable in this tree: nothing to observe
    if not hasattr(webgui, "get_last_error"):
        return True
    from architecture_simulator.isa.parser_exceptions import ParserException
    from architecture_simulator.simulation.runtime_errors import InstructionExecutionException

    old = getattr(sys, "last_value", None)
    sys.last_value = exc
    try:
        rep = webgui.get_last_error()
    finally:
        if old is None:
            try:
                del sys.last_value
            except AttributeError:
                pass
        else:
            sys.last_value = old
    res.count("front_end_reports_checked")
    if isinstance(exc, ParserException):
        want = ("ParserException", exc.line_number)
    elif isinstance(exc, InstructionExecutionException):
        want = ("InstructionExecutionException", exc.address)
    else:
        return True
    if not isinstance(rep, tuple) or len(rep) != 3 or rep[0] != want[0] or rep[2] != want[1] or isinstance(rep[2], bool) or not isinstance(rep[1], str):
        res.violation("C15", "front-end-report", "get_last_error() hands the front end %r for a %s with %s %r" % (rep if not isinstance(rep, tuple) else tuple(str(x)[:80] for x in rep), type(exc).__name__, "line number" if want[0] == "ParserException" else "address", want[1]), case)
        return False
    return True


def classify_load(kind, text, res, case, fault_kinds):
    """load `text` into a fresh simulation of `kind`; classify; returns class name"""
    from architecture_simulator.isa.parser_exceptions import ParserException, MemorySizeException
    from architecture_simulator.uarch.memory.memory import MemoryAddressError

    if kind.startswith("toy"):
        from architecture_simulator.simulation.toy_simulation import ToySimulation

        # ("toy:64" = a machine built with another memory size, a public constructor argument)
        sim = ToySimulation(int(kind[4:])) if ":" in kind else ToySimulation()
    else:
        sim = make_riscv("single")
    nlines = len(text.splitlines())
    # CPU time of this process, not wall-clock time: a loaded machine cannot make the watchdog fire
    signal.signal(signal.SIGPROF, _alarm)
    signal.setitimer(signal.ITIMER_PROF, 30)
    try:
        try:
            sim.load_program(text)
            out = "ok"
            res.count("loads_ok")
        finally:
            signal.setitimer(signal.ITIMER_PROF, 0)
    except Watchdog:
        res.inconclusive.append("load_program did not return within 30 s of CPU time on a %d-line text" % nlines)
        return "watchdog"
    except ParserException as e:
        out = type(e).__name__
        res.count("parser_exceptions")
        res.count("line_numbers_checked")
        ln = getattr(e, "line_number", None)
        if not isinstance(ln, int) or isinstance(ln, bool) or not (1 <= ln <= nlines):
            res.violation("C15", "bad-line-number", "%s carries line_number=%r for a text of %d lines" % (out, ln, nlines), case)
            return out
        if not front_end_view(e, res, case):
            return out
    except (MemorySizeException, MemoryAddressError) as e:
        out = type(e).__name__
        res.count("memory_size_or_address_errors")
    except BaseException as e:
        if isinstance(e, (KeyboardInterrupt, SystemExit)):
            raise
        out = "ESCAPE:" + type(e).__name__
        res.violation("C15", "untyped-load-error", "%s load_program raised %s: %s" % (kind, type(e).__name__, str(e)[:200]), case)
        return out
    res.count("outcome_%s_%s" % (kind, out))
    for fk in fault_kinds or ["none"]:
        res.nontrivial(h64([kind, fk, out]))
    if out != "ok":
        res.nontrivial(h64(text))
    return out


# ------------------------------------------------------------------------------------- fault injection (RISC-V)


LOOKALIKE = {"s": "\u017f", "S": "\u017f", "i": "\u0131", "I": "\u0130", "k": "\u212a", "K": "\u212a", "a": "\u0430", "e": "\u0435", "o": "\u03bf", "x": "\u0445", "l": "\uff4c", "d": "\uff44", "1": "\u00b9"}


def unicode_letter(rng, line):
    """one letter of the line replaced by a letter that is not ASCII but case-folds / looks like it (long s, dotless i,
    Kelvin sign, Cyrillic, full-width): the text is malformed, the answer is a parser error with the line"""
    pos = [j for j, ch in enumerate(line) if ch in LOOKALIKE]
    if not pos:
        return line + " \u017f"
    j = pos[0] if rng.random() < 0.5 else rng.choice(pos)
    return line[:j] + LOOKALIKE[line[j]] + line[j + 1 :]


def inject(rng, text, ast):
    """returns (mutated text, fault kind)"""
    lines = text.split("\n")
    k = rng.random()
    idx = [i for i, l in enumerate(lines) if l.strip() and not l.strip().startswith("#")]
    if not idx:
        return text + "\n" + rng.choice(HOSTILE), "append-literal"
    i = rng.choice(idx)
    l = lines[i]
    if k < 0.4:
        # replace a numeric literal (any position) by a hostile one
        import re

        nums = list(re.finditer(r"(?<![\w.])-?(0x[0-9a-fA-F]+|0b[01]+|\d+)(?![\w])", l))
        cands = [j for j in idx if re.search(r"(?<![\w.])-?(0x[0-9a-fA-F]+|0b[01]+|\d+)(?![\w])", lines[j])]
        if cands:
            i = rng.choice(cands)
            l = lines[i]
            nums = list(re.finditer(r"(?<![\w.])-?(0x[0-9a-fA-F]+|0b[01]+|\d+)(?![\w])", l))
            m = rng.choice(nums)
            lines[i] = l[: m.start()] + rng.choice(HOSTILE) + l[m.end() :]
            return "\n".join(lines), "hostile-literal"
        lines[i] = l + " " + rng.choice(HOSTILE)
        return "\n".join(lines), "append-literal"
    if k < 0.47:
        lines[i] = l.replace(",", " ", 1) if "," in l else l + ","
        return "\n".join(lines), "comma"
    if k < 0.54:
        cut = rng.randrange(1, max(2, len(l)))
        lines[i] = l[:cut]
        return "\n".join(lines), "truncate"
    if k < 0.6:
        lines.insert(i, rng.choice([".data", ".text", ".bss", ".section", ".DATA", ". data", ".data .text"]))
        return "\n".join(lines), "segment-directive"
    if k < 0.66:
        lines.insert(i, rng.choice(["zz: .word 1", "zz: .string \"x\"", "zz: .zero 2", "zz: .byte", "zz: .dword 1", "zz: .word", "zz .word 1", ": .word 1", "zz: .string x", "zz: .string \"a\" \"b\"", "zz: .zero -1", "zz: .zero 0x10", "zz: .zero 99999999999999999999", "zz: .ascii \"q\""]))
        return "\n".join(lines), "declaration"
    if k < 0.72:
        import re

        lines[i] = re.sub(r"\b(L\d+|loop_\d+|_x\d+y|Label\d+|end\d+|v\d+|my_var\d+|buf_\d+|_d\d+|Arr\d+_x)\b", rng.choice(["nowhere", "x1", "add", "zero", "_", "L0:", "v0[", "v0[]", "v0[-1]", "v0[99999999999999999999]", "v0[010]", "v0[0x1]", "v0[0b1]", "v0[0x0]", "v0[0X1]", "v0[-0]", "v0[0x]", "v0[1][0]", "v0[ 1 ]"]), l, count=1)
        return "\n".join(lines), "unknown-name"
    if k < 0.78:
        lines.insert(i, lines[i])
        return "\n".join(lines), "duplicate-line"
    if k < 0.84:
        lines[i] = rng.choice(["fence x1, x2", "fence", "ebreak x1", "csrrw x1, 010, x2", "csrrwi x1, 0x300, 010", "csrrs x1, 99999999999999999999, x2", "csrrci x1, -1, 99999999999", "mv x1", "li x1, x2", "la x1, 5", "lw x1, v0[1", "sw x1, 0(x2", "lw x1, (x2)", "jalr x1", "jal 8", "beq x1, x2", "lui x1, -1", "lui x1, 99999999999999999999", "slli x1, x2, 99999999999999999999", "jal x1, L0+0x", "jal x1, L0+5", "beq x0, x0, L0+-0x4", "jal x1, 010", "beq x1, x2, 09", "addi x32, x0, 1", "addi x1, x0, 1 1", "nop nop", "ecall 1", "x1: nop", "add: nop", "lw x1, 0x(x2)"])
        return "\n".join(lines), "odd-instruction"
    if k < 0.87:
        return "\n".join(lines[:i] + [unicode_letter(rng, l)] + lines[i + 1 :]), "unicode-letter"
    if k < 0.9:
        ch = rng.choice(["\t", "\x00", " ", "\r", "\x0c", " ", ";", "\"", "'", "\\", "\x1c", "\x85"])
        pos = rng.randrange(len(l) + 1)
        lines[i] = l[:pos] + ch + l[pos:]
        return "\n".join(lines), "odd-character"
    if k < 0.95:
        lines[i] = l.upper() if rng.random() < 0.5 else l.swapcase()
        return "\n".join(lines), "case"
    lines[i] = ""
    return "\n".join(lines), "drop-line"


TOKENS = ["add", "addi", "x1", "x0", "a0", ",", ",", "(", ")", "[", "]", ":", ".data", ".text", ".word", ".byte", ".half", ".string", ".zero", "\"s\"", "L0", "L0:", "v0", "v0[1]", "+0x4", "-", "5", "0x10", "0b1", "#", "lw", "sw", "jal", "beq", "li", "la", "mv", "nop", "ecall", "ebreak", "fence", "csrrw", "lui", "\n", "\n", "\n", " "] + HOSTILE
TOY_TOKENS = ["LDA", "STO", "BRZ", "ADD", "NOT", "INC", "NOP", "lda", "L0", "L0:", "v0", ".data", ".text", ".word", ":", ",", "5", "0x10", "4095", "4096", "65536", "#", "\n", "\n", "\n", " "] + HOSTILE


def soup(rng, toks):
    return "".join(rng.choice(toks) + rng.choice([" ", " ", "", "\n"]) for _ in range(rng.randint(1, 30)))


def toy_inject(rng, text):
    lines = text.split("\n")
    idx = [i for i, l in enumerate(lines) if l.strip()]
    if not idx:
        return rng.choice(HOSTILE), "append-literal"
    i = rng.choice(idx)
    l = lines[i]
    k = rng.random()
    import re

    if k < 0.45:
        nums = list(re.finditer(r"(?<![\w.])(0x[0-9a-fA-F]+|\d+)(?![\w])", l))
        if nums:
            m = rng.choice(nums)
            lines[i] = l[: m.start()] + rng.choice(HOSTILE + ["4096", "65536", "99999", "0x10000", "-1"]) + l[m.end() :]
        else:
            lines[i] = l + " " + rng.choice(HOSTILE)
        return "\n".join(lines), "hostile-literal"
    if k < 0.5:
        lines[i] = unicode_letter(rng, l)
        return "\n".join(lines), "unicode-letter"
    if k < 0.6:
        lines.insert(i, rng.choice([".data", ".text", ".bss", "zz: .word 1", "zz: .word", "zz: .half 1", "zz .word 1", "zz: .word 1,", "zz: .word ,1"]))
        return "\n".join(lines), "segment-or-declaration"
    if k < 0.7:
        lines[i] = re.sub(r"\b(L\d+|lab_\d+_x|v\d+|_Var_\d+)\b", rng.choice(["nowhere", "LDA", "_", "L0:"]), l, count=1)
        return "\n".join(lines), "unknown-name"
    if k < 0.8:
        lines[i] = rng.choice(["LDA", "NOT 5", "LDA 1 2", "BRZ L0 L0", "lda: NOP", "STO -1", "ADD 0x", "XOR 1,2", "INC:", "NOP NOP", "LDA v0[1]"])
        return "\n".join(lines), "odd-instruction"
    if k < 0.9:
        lines.insert(i, lines[i])
        return "\n".join(lines), "duplicate-line"
    cut = rng.randrange(1, max(2, len(l)))
    lines[i] = l[:cut]
    return "\n".join(lines), "truncate"


def gen_rv_text(rng):
    ast = A.gen_ast(rng, nstmt=rng.randint(1, 12), ndata=3)
    text = A.Renderer(rng.getrandbits(30) + 1).program(ast)
    kinds = []
    for _ in range(rng.choice([1, 1, 2, 3])):
        text, k = inject(rng, text, ast)
        kinds.append(k)
    return text, kinds


def directed_texts():
    D = []
    for lit in HOSTILE:
        for tmpl in ("addi x1, x0, %s", "slli x1, x1, %s", "lw x1, %s(x2)", "sw x1, x2, %s", "beq x1, x2, %s", "jal x1, %s", "lui x1, %s", "li x1, %s", ".data\nv: .byte %s\n.text\nnop", ".data\nv: .half 1, %s\n.text\nnop", ".data\nv: .word %s, 2\n.text\nnop", ".data\nv: .zero %s\n.text\nnop", ".data\nv: .word 1, 2\n.text\nla x1, v[%s]", "L: nop\nbeq x0, x0, L+%s", "L: nop\njal x0, L+0x%s", "csrrw x1, %s, x2", "csrrwi x1, 0x300, %s"):
            D.append(("rv", tmpl % lit, ["hostile-literal"]))
        for tmpl in ("LDA %s", ".data\nv: .word %s\n.text\nLDA v", ".data\nv: .word 1, %s"):
            D.append(("toy", tmpl % lit, ["hostile-literal"]))
    # a mnemonic / directive / register spelled with a letter that is not ASCII but case-folds to (or looks like) one
    for t in ("\u017fub x1, x2, x3", "nop\nadd\u0131 x1, x1, 1", "SLT\u0130 x1, x2, 3", "nop\nnop\n\u017fw x1, 0(x2)", "l\u0131 x1, 5", "\u017fll\u0131 x1, x1, 2", "ecall\nE\u212aall", "addi \u0445" + "1, x0, 1", ".data\nv: .word 1\n.text\n\u017fw x1, v, x2"):
        D.append(("rv", t, ["unicode-letter"]))
    for t in ("\u0131NC", "NOP\n\u017fTO 5", "\u0130NC", "ADD 1\n\u017fUB 2", "INC\nDEC\nX\u03bfR 3"):
        D.append(("toy", t, ["unicode-letter"]))
    # programs that fit EXACTLY (every slot of the instruction memory / every word of the TOY memory is used) must load
    D.append(("rv", "\n".join(["nop"] * 4096), ["must-load"]))
    D.append(("rv", "\n".join(["li x1, 100000"] * 2048), ["must-load"]))
    D.append(("toy", "\n".join(["NOP"] * 4096), ["must-load"]))
    D.append(("toy", ".data\nv: .word " + ", ".join(["1"] * 4000) + "\n.text\n" + "\n".join(["INC"] * 96), ["must-load"]))
    for n_, ni_, nd_ in ((64, 40, 24), (16, 9, 7), (7, 5, 2), (5000, 4600, 400), (256, 256, 0)):
        # TOY machines of other sizes, filled to the last word: the program fits the configured memory
        D.append(("toy:%d" % n_, (".data\nv: .word " + ", ".join(["3"] * nd_) + "\n.text\n" if nd_ else "") + "\n".join(["INC"] * ni_), ["must-load"]))
        D.append(("toy:%d" % n_, "\n".join(["INC"] * (n_ + 1)), ["too-long"]))
    # programs that do not fit
    D.append(("rv", "\n".join(["nop"] * 4097), ["too-long"]))
    D.append(("rv", "\n".join(["li x1, 100000"] * 2049), ["too-long"]))
    D.append(("rv", ".data\nbig: .zero 1073741824\nw: .word 7\n.text\nlw x1, w", ["huge-zero"]))
    D.append(("rv", ".data\nbig: .zero 99999999999999999999999\nw: .word 7\n.text\nla x1, w\nla x2, big[3]", ["huge-zero"]))
    D.append(("toy", "\n".join(["NOP"] * 4097), ["too-long"]))
    D.append(("toy", ".data\nv: .word " + ", ".join(["1"] * 5000), ["too-long"]))
    D.append(("toy", ".data\nv: .word " + ", ".join(["1"] * 4000) + "\n.text\n" + "\n".join(["INC"] * 200), ["too-long"]))
    for t in ("", "\n\n", "#", "   ", ".data", ".text", ".data\n.text", ".text\n.data", ".data\n.data", ".text\nnop\n.text", ":", "::", "a:b:", "L: L: nop", "﻿nop", "nop\x00", "\x00", "nop\rnop", "nop nop", "v: .word 1", ".data\nnop", ".data\nv: .word 1\nadd x1, x2, x3", "nop\n.data\nv: .word 1\n.text\nnop", "la x1, v", "lw x1, v[0]", "sw x1, v, x2"):
        D.append(("rv", t, ["structure"]))
        D.append(("toy", t.replace("nop", "NOP").replace("add x1, x2, x3", "ADD 5"), ["structure"]))
    return D


# ------------------------------------------------------------------------------------- run-time


def _capable(mn, msg):
    """can an instruction with this mnemonic raise an error with this message?"""
    m = msg.lower()
    if "memoryaddresserror" in m or "cannot access" in m or "offset" in m:
        return mn in ("lb", "lh", "lw", "lbu", "lhu", "sb", "sh", "sw", "ecall")
    if "ecall" in m:
        return mn == "ecall"
    if "implemented" in m:
        return mn in ("ebreak", "fence") or mn.startswith("csr")
    if "csr" in m or "privilege" in m or "illegal action" in m:
        return mn.startswith("csr")
    return True  # unknown message class: nothing to say


def run_runtime_case(case, res):
    """C15, run-time half.  What is judged is the REPORT, not the computation (that is C01/C02):
      1. the exception type, that address names an instruction of the program and instruction_repr is its printed form;
      2. the named instruction is able to raise that kind of error at all;
      3. for address errors the failing memory address of the message lies in the footprint (cache block, if a data
         cache is on) of the named instruction given the registers at the fault;
      4. as long as the real run agrees with the sequential reference (single-cycle, checked step by step; five-stage:
         registers and output at the fault), the address must be the reference's failing instruction, and a failure
         the reference has must be reported."""
    import re
    from architecture_simulator.simulation.runtime_errors import InstructionExecutionException
    from ..refmodels.rv32 import footprint, srcs, LOADS, STORES

    prog = {4 * i: d for i, d in enumerate(case["prog"])}
    pinned = case.get("dcache") is None or case.get("within_word")
    cfg = case.get("dcache")
    block = (4 << cfg["bb"]) if cfg else 1
    for mode in ("single", "five"):
        sim = make_riscv(mode, hz=True, dcache=cfg)
        install_program(sim, case["prog"])
        set_regs(sim, case["regs"])
        preload_mem(sim, case["mem"])
        seq = SeqRef(prog, case["regs"], case["mem"])
        seq.keep_trace = False
        k = 0
        err = None
        agree = True
        want = None
        try:
            while not sim.is_done() and k < 6 * case["max_instr"] + 20:
                if mode == "single" and agree and not seq.done() and seq.n < case["max_instr"]:
                    try:
                        seq.step()
                    except Fault:
                        want = seq.pc
                        sim.step()  # must raise
                        if pinned:
                            res.violation("C15", "runtime-fault-missing", "single mode: every step so far agreed with the reference, the instruction at %d fails (reference) but step() raised nothing" % want, case)
                            return
                        agree = False
                        continue
                    sim.step()
                    k += 1
                    if [int(x) for x in sim.state.register_file.registers] != seq.x or (sim.state.program_counter - seq.pc) % (1 << 32):
                        agree = False
                else:
                    sim.step()
                    k += 1
        except InstructionExecutionException as e:
            err = e
        except BaseException as e:
            if isinstance(e, (KeyboardInterrupt, SystemExit)):
                raise
            res.violation("C15", "untyped-runtime-error", "%s mode: step() raised %s: %s" % (mode, type(e).__name__, str(e)[:200]), case)
            return
        if err is None:
            continue
        res.count("runtime_faults_" + mode)
        rr = [int(x) for x in sim.state.register_file.registers]
        im = sim.state.instruction_memory
        obj = im.read_instruction(err.address) if isinstance(err.address, int) and im.instruction_at_address(err.address) else None
        bad = []
        if obj is None or err.instruction_repr != repr(obj):
            bad.append("instruction_repr %r is not the printed form %r of the instruction at %r" % (err.instruction_repr, obj, err.address))
        if not isinstance(err.error_message, str):
            bad.append("error_message is %r" % (err.error_message,))
        elif obj is not None:
            d = prog.get(err.address)
            mn = obj.mnemonic
            if not _capable(mn, err.error_message):
                bad.append("the named instruction %r cannot raise %r" % (repr(obj), err.error_message[:80]))
            mm = re.search(r"at address 0x(-?[0-9A-Fa-f]+)", err.error_message)
            if mm and d is not None and (mn in LOADS or mn in STORES) and "data memory" in err.error_message:
                res.count("failing_address_footprints_checked")
                fa = int(mm.group(1), 16) & M32
                ops = tuple(rr[s_] for s_ in srcs(d))
                fp = footprint(d, ops)
                blocks = {a // block for a in fp} if block > 1 else None
                if (fa not in fp) and not (blocks and fa // block in blocks):
                    bad.append("the message reports failing memory address %#x, but %r with the registers at the fault accesses %s" % (fa, repr(obj), [hex(a) for a in fp]))
        # reference agreement: single-cycle step by step (above); five-stage: state at the fault
        if mode == "five" and pinned:
            s2 = SeqRef(prog, case["regs"], case["mem"])
            s2.keep_trace = False
            r2 = s2.run(case["max_instr"])
            if isinstance(r2, tuple) and s2.x == rr and s2.out == sim.state.output:
                want = r2[1]
        if pinned and want is not None and (mode == "five" or agree) and err.address != want:
            bad.append("address %r, but the run agrees with the reference whose failing instruction is at %r" % (err.address, want))
        if bad:
            res.violation("C15", "runtime-error-fields", "%s mode: %s" % (mode, "; ".join(bad)), case)
            return
        if not front_end_view(err, res, case):
            return
        res.nontrivial(h64([case["prog"], case["regs"], mode]))


UNIMPL = ["fence x0, x0", "ebreak", "csrrw x1, 0xC00, x2", "csrrs x1, 0x300, x0", "csrrwi x1, 0xFFF, 3", "csrrc x3, 0xF11, x4", "csrrsi x0, 0x3A0, 1"]


def run_unimpl_case(case, res):
    """single-cycle mode: the documented-as-unimplemented / privileged instructions fail at run time; that failure,
    too, is an instruction-execution error carrying the address and the printed form of the instruction"""
    from architecture_simulator.simulation.runtime_errors import InstructionExecutionException

    for mode in ("single", "five"):
        if not _run_unimpl(case, res, mode):
            return


def _run_unimpl(case, res, mode):
    """(five-stage mode: whichever of these instructions fails there - on the pinned tree ebreak - is judged the same way)"""
    from architecture_simulator.simulation.runtime_errors import InstructionExecutionException

    sim = make_riscv(mode)
    try:
        sim.load_program(case["text"])
    except Exception:
        return False
    lst = dict(sim.state.instruction_memory.get_representation())
    n = 0
    try:
        while not sim.is_done() and n < 60:
            sim.step()
            n += 1
    except InstructionExecutionException as e:
        res.count("unimplemented_instruction_failures" + ("_five_stage" if mode == "five" else ""))
        if lst.get(e.address) != e.instruction_repr or e.address != case["at"]:
            res.violation("C15", "runtime-report", "%s mode: failure of %r reported with address %r and text %r; the listing has %r there (failing instruction at %d)" % (mode, case["instr"], e.address, e.instruction_repr, lst.get(e.address), case["at"]), case)
            return False
        return front_end_view(e, res, case)
    except Exception as e:
        res.violation("C15", "untyped-runtime-error", "%s mode: a failing %r raised %s: %s instead of an instruction-execution error" % (mode, case["instr"], type(e).__name__, str(e)[:100]), case)
        return False
    res.count("unimplemented_instruction_ran")
    return True


def run_case(prop, case, res):
    if case["kind"] == "text":
        out = classify_load(case["sim"], case["text"], res, case, case.get("faults"))
        if "must-load" in (case.get("faults") or []):
            res.count("exactly_fitting_programs")
            if out != "ok" and not str(out).startswith(("ESCAPE", "watchdog")):
                res.violation("C15", "fitting-program-rejected", "a %s program that fits the simulated memory exactly (%d lines) was rejected with %s: the size / address error is for programs that do NOT fit" % (case["sim"], len(case["text"].splitlines()), out), case)
    elif case["kind"] == "unimpl":
        run_unimpl_case(case, res)
    else:
        run_runtime_case(case, res)


def run_shard(spec, res):
    rng = rng_for("C15", spec["tier"], spec["seed"], spec["kind"], spec["shard"])
    k = spec["kind"]
    if k == "directed":
        for i_, ins in enumerate(UNIMPL):
            for pre in (0, 1, 3, 11):
                text = "\n".join(["addi x5, x5, 1"] * pre + [ins, "addi x6, x6, 1"])
                guarded(run_case, "C15", {"kind": "unimpl", "text": text, "instr": ins, "at": 4 * pre}, res)
                res.evaluations += 1
        for sim, text, kinds in directed_texts():
            guarded(run_case, "C15", {"kind": "text", "sim": sim, "text": text, "faults": kinds}, res)
            res.evaluations += 1
            res.count("rv_texts" if sim == "rv" else "toy_texts")
            if "hostile-literal" in kinds:
                res.count("hostile_literals_injected")
        return
    for it in range(spec["n"]):
        if k == "rv":
            if rng.random() < 0.12:
                text, kinds = soup(rng, TOKENS), ["soup"]
                res.count("soups")
            else:
                text, kinds = gen_rv_text(rng)
            case = {"kind": "text", "sim": "rv", "text": text, "faults": kinds}
            res.count("rv_texts")
        elif k == "toy":
            from . import toy as T

            if rng.random() < 0.15:
                text, kinds = soup(rng, TOY_TOKENS), ["soup"]
                res.count("soups")
            else:
                text = T.gen_source(rng)["text"]
                kinds = []
                for _ in range(rng.choice([1, 1, 2])):
                    text, kk = toy_inject(rng, text)
                    kinds.append(kk)
            case = {"kind": "text", "sim": "toy", "text": text, "faults": kinds}
            res.count("toy_texts")
        else:
            if rng.random() < 0.5:
                prog, regs = G.soup_program(rng, rng.randint(1, 16), aligned=rng.random() < 0.5), G.soup_regs(rng, bad_ecall=0.5)
                if rng.random() < 0.5:
                    regs["31"] = rng.choice([0, 0x3FFC, 0xFFFFFFFC, 0x3FC0])
            else:
                prog, regs = G.structured_program(rng, size=rng.randint(3, 20), aligned=True, faults=True)
            case = {"kind": "runtime", "prog": prog, "regs": regs, "mem": G.init_mem(rng), "max_instr": 150}
            if rng.random() < 0.4:
                # with a data cache the failing instruction is the same one as long as every access stays within one
                # word (crossing accesses are rejected by the cache, see C03): regenerate such a program
                from .cache import rand_cfg

                case["dcache"] = rand_cfg(rng, small=True)
                if rng.random() < 0.5:
                    case["dcache"]["bb"] = 0
                prog, regs = G.soup_program(rng, rng.randint(1, 16), aligned=True, mem_w=0.3), G.soup_regs(rng, bad_ecall=0.3)
                regs["31"] = rng.choice([0, 0x3FF0, 0x3FC0, 0x4000, 0xFFFFFFC0])
                if rng.random() < 0.5:
                    prog = [{"m": "sw", "rs1": 0, "rs2": 1, "imm": rng.choice([0, 8, 64])}] + prog if rng.random() < 0.5 else prog + [{"m": "sw", "rs1": 31, "rs2": 1, "imm": -64}]
                case.update(prog=prog, regs=regs, within_word=True)
                res.count("runtime_cases_with_cache")
        if "hostile-literal" in case.get("faults", []):
            res.count("hostile_literals_injected")
        if case["kind"] == "text" and rng.random() < 0.12:
            # the editor of another platform: CRLF line endings (a line is still a line)
            case["text"] = case["text"].replace("\r\n", "\n").replace("\n", "\r\n")
            case["faults"] = list(case.get("faults") or []) + ["crlf"]
            res.count("crlf_texts")
        guarded(run_case, "C15", case, res)
        res.evaluations += 1
        if it < 2:
            res.sample(case, 6)
