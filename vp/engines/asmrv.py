"""Engine `asmrv` - C04 (labels / pseudo-instructions), C05 (data segment, name[i], li/la), C14 (print/parse round trip).

Oracle = AST with semantics (vp/gen/asm_rv.py).  Pseudo-instructions are judged by EFFECT and
compositionality (the group a statement assembles to alone must reappear wherever it occurs and must
have the documented effect when executed by the reference interpreter), never by a pinned expansion."""
from ..common import decoy_riscv_touch, make_riscv_at, guarded, rng_for, h64, make_riscv, real_regs, M32
from ..refmodels.rv32 import SeqRef, Fault, LOADS, STORES, sext
from ..gen import asm_rv as A

RULE = {
    "C04": "ASTs of 1-24 statements (all real formats, all pseudo forms, stand-alone/in-line labels incl. on expanding pseudo-instructions, several labels per address, label at end, forward/backward refs, label+0xoff, numeric targets) x several independent renderings (ABI/xN, mnemonic case, dec/hex/bin/negative literals, comments, blank lines, indentation, segment order/directives); "
    "listing compared field by field with the AST's expectation, pseudo groups judged by effect. non-trivial = program with >=1 expanding pseudo-instruction before >=1 referenced label; distinct by AST hash.",
    "C05": "random data segments (byte/half/word/string/zero, 1-9 elements, negative and out-of-range literals) compared byte-wise with the AST's image (+guard bytes), in both segment orders; name[i] observed by running la/load/store-by-name programs on the real simulator; li over every low-12-bit pattern x boundary high parts x spellings; documented example. "
    "non-trivial = segment with >=3 declaration types and >=1 indexed access / li constant needing lui+addi with carry; distinct by hash.",
    "C14": "every mnemonic of the instruction map except FENCE, constructed directly with all register numbers per operand position and boundary+random immediates, at varying addresses; repr() is re-assembled at the same address and class+fields compared; listing of every generated program re-assembles to the same listing. "
    "non-trivial = instruction with a non-zero immediate or pc-relative/absolute target; distinct by (mnemonic, fields, address).",
}
ASSUMPTIONS = {
    "C04": ["generator scope bounds of DESIGN 5-r6 (label names avoid mnemonics/register names, '-' is the only sign, no load-by-name into x0 / store-by-name via x0)", "immediates compared modulo their encoding width"],
    "C05": ["t0 may be clobbered by load-by-name (documented) and is not compared after such a statement unless rewritten", "the help page's comment \"x6 = '!'\" is a documentation off-by-one and is not asserted"],
    "C14": ["FENCE excluded (no operand syntax implemented)"],
}
REQUIRED = {
    "C04": ["programs_loaded", "renderings_compared", "pseudo_groups_judged", "inline_labels_on_expanding_pseudo", "label_refs_checked", "label_at_end", "offset_refs", "rejected_variant_assembled_first"],
    "C05": ["data_images_compared", "indexed_accesses_run", "zero_indexed", "li_constants_run", "li_with_carry", "doc_example", "segment_orders_compared", "address_sweep_targets", "custom_data_range_cases"],
    "C14": ["round_trips", "listing_round_trips", "mn_jal", "mn_csrrw", "mn_sw", "mn_lui", "mn_ebreak", "listings_after_write_instruction", "error_messages_checked", "pipeline_view_texts_checked"],
}


def plan(prop, tier, seed):
    q = tier == "quick"
    if prop == "C04":
        return [{"kind": "directed", "shard": 0}] + [{"kind": "ast", "n": 28 if q else 1000, "renders": 4 if q else 6, "shard": i} for i in range(15)]
    if prop == "C05":
        return [{"kind": "doc", "shard": 0}] + [{"kind": "li_sweep", "shard": i, "of": 12} for i in range(12)] + [{"kind": "data", "n": 22 if q else 700, "shard": i} for i in range(14)] + [{"kind": "addr_sweep", "shard": i, "of": 6} for i in range(6)] + [{"kind": "li", "n": 14 if q else 450, "shard": i} for i in range(14 if q else 15)]
    return [{"kind": "rt", "n": 12 if q else 400, "shard": i} for i in range(10 if q else 15)] + [{"kind": "rt_regs", "shard": 0}] + [{"kind": "listing", "n": 12 if q else 300, "shard": i} for i in range(4)] + [{"kind": "outlets", "n": 60 if q else 1500, "shard": i} for i in range(3 if q else 8)]


# --------------------------------------------------------------------------------------- helpers


def load(text, data_start=None, ibase=None, **kw):
    if ibase:
        # an instruction memory with another address range (public constructor arguments): the program starts there
        s = make_riscv_at("single", ibase, size=0x4000 - ibase)
    elif data_start is not None:
        # a custom data memory whose address range starts elsewhere (public constructor arguments)
        from architecture_simulator.simulation.riscv_simulation import RiscvSimulation
        from architecture_simulator.uarch.riscv.riscv_architectural_state import RiscvArchitecturalState
        from architecture_simulator.uarch.memory.memory import Memory, AddressingType

        s = RiscvSimulation(state=RiscvArchitecturalState(memory=Memory(AddressingType.BYTE, 32, True, range(data_start, 2**32))))
    else:
        s = make_riscv("single", **kw)
    s.load_program(text)
    return s


def fields(ins):
    d = {"m": ins.mnemonic}
    for f in ("rd", "rs1", "rs2", "imm", "csr", "uimm"):
        if hasattr(ins, f):
            d[f] = getattr(ins, f)
    return d


def listing(sim):
    """[(address, fields)] via read_instruction over the addresses of get_representation()"""
    im = sim.state.instruction_memory
    decoy_riscv_touch()  # another live simulation's listing was just looked at
    return [(a, fields(im.read_instruction(a))) for a, _ in im.get_representation()]


def group_of(stmt, data, R):
    """assemble one statement alone (same data segment) -> list of real instruction fields"""
    ast = {"data": data, "stmts": [stmt], "labels": {}}
    s = load(R.program(ast, data_first=True))
    return [f for _, f in listing(s)]


def judge_group(stmt, group, vars_, img, rng):
    """execute the emitted group with the reference interpreter from random register files; it must
    have exactly the documented effect.  returns None or message"""
    k = stmt["k"]
    if k == "nop":
        pass
    for trial in range(3):
        regs = {r: rng.getrandbits(32) for r in range(1, 32)}
        P = {4 * i: g for i, g in enumerate(group)}
        sr = SeqRef(P, regs, img)
        try:
            n = 0
            while not sr.done() and n < 16:
                sr.step()
                n += 1
        except Fault as f:
            return "group faults (%s)" % (f.kind,)
        except NotImplementedError as e:
            return "group contains %s" % e
        if not sr.done() or sr.pc != 4 * len(group):
            return "group does not fall through its end"
        exp = [0] + [regs[r] for r in range(1, 32)]
        expm = dict(img)
        dont_care = set()
        if k == "mv":
            exp[stmt["rd"]] = exp[stmt["rs"]]
        elif k == "li":
            exp[stmt["rd"]] = stmt["c"] % (1 << 32)
        elif k == "la":
            exp[stmt["rd"]] = A.var_addr(vars_, stmt["var"], stmt["idx"])
        elif k == "ldv":
            a = A.var_addr(vars_, stmt["var"], stmt["idx"])
            n_, sg = LOADS[stmt["m"]]
            v = sum(img.get(a + i, 0) << (8 * i) for i in range(n_))
            exp[stmt["rd"]] = sext(v, 8 * n_) & M32 if sg else v
            if stmt["rd"] != 5:
                dont_care.add(5)  # t0 may be overwritten (documented)
        elif k == "stv":
            a = A.var_addr(vars_, stmt["var"], stmt["idx"])
            exp[stmt["rs2"]] = a  # rs2 = &var[index] ...
            exp[0] = 0
            v = exp[stmt["rs1"]]  # ... then M[rs2] = rs1 (rs1 == rs2 stores the address)
            for i in range(STORES[stmt["m"]]):
                expm[a + i] = (v >> (8 * i)) & 0xFF
        exp[0] = 0
        for r in range(32):
            if sr.x[r] != exp[r] and r not in dont_care:
                return "effect: x%d = %#x, documented effect gives %#x" % (r, sr.x[r], exp[r])
        if any(sr.mem.b.get(a, 0) != expm.get(a, 0) for a in set(sr.mem.b) | set(expm)):
            return "effect: memory differs from the documented effect"
        if sr.out or sr.exit is not None:
            return "effect: output/exit"
    return None


# --------------------------------------------------------------------------------------- C04


def run_ast_case(case, res, prop):
    import random as _random

    ast = {"data": case["data"], "stmts": case["stmts"], "labels": case["labels"]}
    vars_, img, end = A.layout(ast["data"])
    rng = _random.Random(case["seed"])
    plain = A.Renderer(0, plain=True)
    if ast["data"] and case["seed"] % 3 == 0 and any(s_["k"] in ("la", "ldv", "stv") for s_ in ast["stmts"]):
        # a SIBLING program is assembled first in the same process (other simulation objects): the same text lines, but
        # one more variable in front of the data segment, so every variable lives at another address.  What a line
        # denotes depends on the program it stands in, not on what was assembled before.
        sib = {"data": [{"name": "sib_pad_", "type": "word", "vals": [1, 2, 3]}] + list(ast["data"]), "stmts": ast["stmts"], "labels": ast["labels"]}
        res.count("sibling_program_assembled_first")
        for ri in [0] + list(case["renders"]):
            try:
                load(A.Renderer(ri, plain=(ri == 0)).program(sib, data_first=True) if ri == 0 else A.Renderer(ri).program(sib))
            except Exception:
                pass
        for s_ in ast["stmts"]:
            if s_["k"] in ("la", "ldv", "stv"):
                try:
                    group_of(s_, sib["data"], plain)
                except Exception:
                    pass
    # 1. groups of pseudo statements (assembled alone) judged by effect
    groups = []
    for s in ast["stmts"]:
        if s["k"] in A.PSEUDO:
            try:
                g = group_of(s, ast["data"], plain)
            except Exception as e:
                res.violation("C04", "pseudo-alone-failed", "pseudo statement %r failed to assemble alone: %r" % (plain.stmt(s), e), case)
                return
            msg = judge_group(s, g, vars_, img, rng)
            res.count("pseudo_groups_judged")
            if msg:
                res.violation("C05" if s["k"] in ("li", "la", "ldv", "stv") and prop == "C05" else "C04", "pseudo-effect", "%r assembles to %s: %s" % (plain.stmt(s), g, msg), case)
                if res.violations and res.violations[-1]["case"] is case:
                    res.violations[-1]["stmt"] = s
                return
            groups.append(g)
        else:
            groups.append([None])
    # (a share of the programs is assembled into an instruction memory that starts at another address: labels and
    #  pc-relative displacements move with it)
    B = [0, 0, 0x100, 0x404][case["seed"] % 4] if len(ast["stmts"]) < 200 else 0
    addr = [B]
    for g in groups:
        addr.append(addr[-1] + 4 * len(g))
    laddr = {l: addr[p] for l, p in ast["labels"].items()}
    exp = []
    for i, (s, g) in enumerate(zip(ast["stmts"], groups)):
        if s["k"] in A.PSEUDO:
            exp += g
        else:
            exp.append(A.expected_real(s, addr[i], laddr))
    # 2. renderings
    reprs = []
    for ri in case["renders"]:
        R = A.Renderer(ri, plain=(ri == 0))
        text = R.program(ast)
        if ri % 3 == 1:
            # the editor re-assembles on every keystroke: a REJECTED variant of this very text (same in-line labels,
            # one more line that refers to an unknown variable / label) is assembled first, in the same process
            res.count("rejected_variant_assembled_first")
            other = A.Renderer(ri + 7919).program(ast)  # ANOTHER spelling of the program (other line numbers, other in-line labels)
            for base_ in (other, text):
                for extra in ("la x1, no_such_variable_", "beq x0, x0, no_such_label_", ".data\nno_such: .word"):
                    try:
                        load(base_ + "\n" + extra)
                    except Exception:
                        pass
        try:
            if B:
                sim = load(text, ibase=B)
                res.count("assembled_at_other_instruction_base")
            elif ri % 3 == 2:
                # the assembler's own public entry point on an architectural state that already holds a LONGER
                # program: afterwards the instruction memory holds exactly the new program
                from architecture_simulator.isa.riscv.riscv_parser import RiscvParser

                sim = make_riscv("single")
                if ri % 2:
                    # ONE parser object used for everything, after a text it rejected late (unknown label / odd offset)
                    P_ = RiscvParser()
                    for bad_ in ("addi x1, x1, 1\nsub x2, x2, x2\nbeq x0, x0, no_such_label_", "addi x3, x3, 3\njal x0, 3"):
                        try:
                            P_.parse(bad_, sim.state)
                        except Exception:
                            pass
                    res.count("parser_object_reused_after_rejected_text")
                    mkp = lambda: P_
                else:
                    mkp = RiscvParser
                mkp().parse("\n".join(["addi x1, x1, 1"] * (len(exp) + 1 + ri % 7)), sim.state)
                mkp().parse(text, sim.state)
                res.count("assembled_over_longer_program")
            elif ri % 4 == 3:
                # the simulation has an instruction cache and has already RUN another program: what is read from the
                # instruction memory after load_program is the new program
                sim = make_riscv("single", icache={"ib": ri % 2, "bb": 1 + ri % 2, "assoc": 1 + (ri >> 3) % 2, "policy": "lru", "pen": 0})
                sim.load_program("\n".join(["addi x1, x1, 1"] * (len(exp) + 2)))
                sim.run()
                sim.load_program(text)
                res.count("loaded_into_simulation_with_warm_instruction_cache")
            else:
                sim = load(text)
        except Exception as e:
            res.violation("C04", "load-failed", "well-formed program failed to load (%r); rendering seed %d:\n%s" % (e, ri, text[:600]), case)
            return
        res.count("programs_loaded")
        got = listing(sim)
        if [a for a, _ in got] != list(range(B, B + 4 * len(exp), 4)):
            res.violation("C04", "listing-addresses", "instructions at %s..., expected %d consecutive 4-byte slots from %d; rendering seed %d" % ([a for a, _ in got][:8], len(exp), B, ri), case)
            return
        for (a, f), e in zip(got, exp):
            ok = A.same_fields(f, e) if "m" in e and set(e) <= {"m", "rd", "rs1", "rs2", "imm"} and not _is_group_field(e) else f == e
            if not ok:
                res.violation("C04", "listing-mismatch", "address %d: assembled %r, source denotes %r; rendering seed %d" % (a, f, e, ri), case)
                return
        res.count("renderings_compared")
        reprs.append(sim.state.instruction_memory.get_representation())
        # C05 clause inside C04 programs: data image
        if ast["data"]:
            bad = check_image(sim, img, end)
            if bad:
                res.violation("C05", "data-image", bad + "; rendering seed %d" % ri, case)
                return
    if any(r != reprs[0] for r in reprs):
        res.violation("C04", "renderings-differ", "two spellings of the same program give different instruction memory", case)
        return
    # C14 clause: the printed listing re-assembles to the same listing
    try:
        if not B and case["seed"] % 3 == 0:
            # re-assembled by ONE parser object that has just rejected two other texts late (unknown label, odd offset)
            from architecture_simulator.isa.riscv.riscv_parser import RiscvParser

            s2 = make_riscv("single")
            P_ = RiscvParser()
            for bad_ in ("addi x1, x1, 1\nsub x2, x2, x2\nbeq x0, x0, no_such_label_", "addi x3, x3, 3\njal x0, 3"):
                try:
                    P_.parse(bad_, s2.state)
                except Exception:
                    pass
            s2.state.instruction_memory.reset()
            P_.parse("\n".join(t for _, t in reprs[0]), s2.state)
            res.count("listing_reassembled_by_reused_parser")
        else:
            s2 = load("\n".join(t for _, t in reprs[0]), ibase=B or None)  # (re-assembled where it was printed)
        res.count("listing_round_trips")
        if s2.state.instruction_memory.get_representation() != reprs[0]:
            res.violation("C14", "listing-round-trip", "re-assembling the printed listing gives a different listing", case)
            return
        # the text may round-trip while the instruction behind it does not (e.g. a printed jump target that is
        # not the encoded one): compare the instructions themselves, address by address
        l1, l2 = listing(sim), listing(s2)
        for (a1, f1), (a2, f2) in zip(l1, l2):
            if a1 != a2 or f1 != f2:
                res.violation("C14", "listing-round-trip", "address %d: %r prints as %r which re-assembles to %r" % (a1, f1, dict(reprs[0])[a1], f2), case)
                return
    except Exception as e:
        res.violation("C14", "listing-round-trip", "re-assembling the printed listing failed: %r" % (e,), case)
        return
    if prop == "C14" and case["seed"] % 2 == 0:
        # the same round trip in a simulation whose instruction memory starts elsewhere: the listing printed there
        # re-assembles, there, to the same instructions at the same addresses
        B = [0x40, 0x100, 0x404, 0x1000][(case["seed"] >> 1) % 4]
        try:
            sB = load(A.Renderer(case["renders"][-1]).program(ast), ibase=B)
        except Exception:
            sB = None  # does not fit behind that base, or numeric targets below it: nothing to compare
        if sB is not None:
            res.count("listing_round_trips_at_other_instruction_base")
            lB = listing(sB)
            try:
                sB2 = load("\n".join(t for _, t in sB.state.instruction_memory.get_representation()), ibase=B)
                lB2 = listing(sB2)
            except Exception as e:
                res.violation("C14", "listing-round-trip", "instruction memory starting at %#x: re-assembling the printed listing failed: %r" % (B, e), case)
                return
            if lB != lB2:
                d_ = [(x, y) for x, y in zip(lB, lB2) if x != y][:1]
                res.violation("C14", "listing-round-trip", "instruction memory starting at %#x: the printed listing re-assembles to other instructions, first difference %r" % (B, d_ or (len(lB), len(lB2))), case)
                return
    if case["seed"] % 2 == 1 and exp:
        # ... and a text that denotes NO instruction, loaded into the same simulation after its listing was looked
        # at, leaves an empty instruction memory
        try:
            sim.load_program("# nothing\n\n")
            left = sim.state.instruction_memory.get_representation()
        except Exception as e:
            left = repr(e)
        res.count("empty_text_loaded_afterwards")
        if left != []:
            res.violation("C04", "listing-mismatch", "after loading a text without instructions into the same simulation the listing shows %s" % (str(left)[:120],), case)
            return
    # coverage flags
    refs = [s for s in ast["stmts"] if s["k"] in ("brl", "jall")]
    res.count("label_refs_checked", len(refs))
    res.count("offset_refs", sum(1 for s in refs if s["off"]))
    n = len(ast["stmts"])
    if any(p == n for p in ast["labels"].values()):
        res.count("label_at_end")
    expanding_before_label = False
    for l, p in ast["labels"].items():
        if p < n and len(groups[p]) > 1:
            res.count("inline_labels_on_expanding_pseudo")
        if any(len(groups[i]) > 1 for i in range(min(p, n))) and any(s["label"] == l for s in refs):
            expanding_before_label = True
    if expanding_before_label:
        res.nontrivial(h64([case["data"], case["stmts"], case["labels"]]))


def _is_group_field(e):
    return False


def check_image(sim, img, end, lo=None):
    m = sim.state.memory
    cached = getattr(m, "memory", None)  # behind a data cache: logical contents through uncounted reads
    lo = A.DATA_BASE if lo is None else lo
    # every declared byte, guard bytes behind the segment, the first bytes of the data range (huge .zero
    # reservations are not walked byte by byte) and everything the backing store holds
    probe = set(img) | set(range(max(end, lo), max(end, lo) + 8)) | set(range(lo, min(max(end, lo), lo + 64)))
    for a in sorted(probe):
        if a >= (1 << 32):
            continue
        got = int(m.read_byte(a)) if cached is None else int(m.read_byte(a, False))
        if got != img.get(a, 0):
            return "data byte %#x = %#x, declared layout gives %#x" % (a, got, img.get(a, 0))
    extra = [a for a, v in (m if cached is None else cached).memory_file.items() if int(v) and a not in img]
    if extra:
        return "data written outside the declared layout at %s" % [hex(a) for a in sorted(extra)[:4]]
    return None


def directed_c04():
    D = []
    mk = lambda stmts, labels, data=None: {"kind": "ast", "data": data or [], "stmts": stmts, "labels": labels, "renders": [0, 1, 2, 3], "seed": 1}
    data = [{"name": "v", "type": "word", "vals": [1, 2, 3]}, {"name": "buf", "type": "zero", "n": 4}, {"name": "s", "type": "string", "s": "Hi"}]
    # in-line label on li (expanding), on load-by-name, on la; reference before and after
    D.append(mk([{"k": "li", "rd": 1, "c": 100000}, {"k": "brl", "m": "beq", "rs1": 0, "rs2": 0, "label": "loop_0", "off": None}, {"k": "nop"}], {"loop_0": 0}))
    D.append(mk([{"k": "jall", "m": "jal", "rd": 0, "label": "L0", "off": 4}, {"k": "ldv", "m": "lw", "rd": 6, "var": "v", "idx": 2}, {"k": "la", "rd": 7, "var": "buf", "idx": 1}, {"k": "brl", "m": "bne", "rs1": 6, "rs2": 7, "label": "L1", "off": None}, {"k": "stv", "m": "sh", "rs1": 6, "rs2": 7, "var": "s", "idx": 1}], {"L0": 1, "L1": 2, "end2": 5}, data))
    # load-by-name into x0 (open known finding K2: the group uses rd as address register and faults)
    D.append(mk([{"k": "ldv", "m": "lw", "rd": 0, "var": "v", "idx": 1}, {"k": "nop"}], {}, data))
    # jal to a label more than 4 KiB away (forward and backward); branches at the edge of their +-4 KiB reach
    far = [{"k": "jall", "m": "jal", "rd": 1, "label": "L1", "off": None}] + [{"k": "nop"}] * 1100 + [{"k": "jall", "m": "jal", "rd": 0, "label": "L0", "off": 4}, {"k": "brl", "m": "beq", "rs1": 0, "rs2": 0, "label": "Label1", "off": None}] + [{"k": "nop"}] * 1022 + [{"k": "jaln", "m": "jal", "rd": 0, "abs": 8}]
    c = mk(far, {"L0": 0, "L1": 1101, "Label1": 1102 + 1023})
    c["renders"] = [0, 5]
    D.append(c)
    # a program that fills the instruction memory EXACTLY (4096 instructions, a li expanding into the last two slots, a
    # label behind the last instruction): it fits, so it assembles
    fit = [{"k": "jall", "m": "jal", "rd": 0, "label": "Lend", "off": None}] + [{"k": "nop"}] * 4092 + [{"k": "brl", "m": "bne", "rs1": 1, "rs2": 2, "label": "L0", "off": 4}, {"k": "li", "rd": 7, "c": 0x12345}]
    c = mk(fit, {"L0": 4090, "Lend": 4095})
    c["renders"] = [0]
    D.append(c)
    # identifiers that differ only in case, used by otherwise identical lines
    dcase = [{"name": "Val", "type": "word", "vals": [11]}, {"name": "val", "type": "word", "vals": [22]}]
    D.append(mk([{"k": "nop"}, {"k": "brl", "m": "beq", "rs1": 0, "rs2": 0, "label": "Loop", "off": None}, {"k": "nop"}, {"k": "brl", "m": "beq", "rs1": 0, "rs2": 0, "label": "loop", "off": None}, {"k": "ldv", "m": "lw", "rd": 5, "var": "Val", "idx": None}, {"k": "ldv", "m": "lw", "rd": 5, "var": "val", "idx": None}, {"k": "jall", "m": "jal", "rd": 0, "label": "Loop", "off": None}, {"k": "jall", "m": "jal", "rd": 0, "label": "loop", "off": None}], {"Loop": 0, "loop": 2}, dcase))
    D.append(mk([{"k": "li", "rd": 5, "c": -1}, {"k": "li", "rd": 5, "c": 0xFFFFF800}, {"k": "mv", "rd": 3, "rs": 5}, {"k": "jaln", "m": "jal", "rd": 1, "abs": 0}, {"k": "brn", "m": "bgeu", "rs1": 1, "rs2": 2, "imm": -8}, {"k": "ecall"}], {"L0": 6, "Label1": 6, "_x2y": 3}))
    return D


# --------------------------------------------------------------------------------------- C05


def run_data_case(case, res):
    """data image in both segment orders + name[i] observed by running pseudo statements"""
    import random as _random

    data = case["data"]
    ds = case.get("data_start")
    vars_, img, end = A.layout(data, None if ds is None else (ds + 3) & ~3)
    if ds is not None:
        res.count("custom_data_range_cases")
    stmts = case["stmts"]
    ast = {"data": data, "stmts": stmts, "labels": {}}
    finals = []
    for order, ri in ((True, case["renders"][0]), (False, case["renders"][1])):
        R = A.Renderer(ri)
        text = R.program(ast, data_first=order)
        try:
            sim = load(text, data_start=ds)
        except Exception as e:
            res.violation("C05", "load-failed", "well-formed data program failed to load (%r):\n%s" % (e, text[:500]), case)
            return
        bad = check_image(sim, img, end, lo=None if ds is None else ds)
        res.count("data_images_compared")
        if bad:
            res.violation("C05", "data-image", "%s (.data %s .text)" % (bad, "before" if order else "after"), case)
            return
        # run on the real simulator and compare with the documented effect applied statement by statement
        x = [0] * 32
        mem = dict(img)
        dont_care = set()
        for s in stmts:
            k = s["k"]
            a = A.var_addr(vars_, s["var"], s["idx"]) if "var" in s else None
            if k == "la":
                x[s["rd"]] = a
                dont_care.discard(s["rd"])
            elif k == "ldv":
                n_, sg = LOADS[s["m"]]
                v = sum(mem.get(a + i, 0) << (8 * i) for i in range(n_))
                x[s["rd"]] = sext(v, 8 * n_) & M32 if sg else v
                dont_care.discard(s["rd"])
                if s["rd"] != 5:
                    dont_care.add(5)
            elif k == "stv":
                x[s["rs2"]] = a
                dont_care.discard(s["rs2"])
                v = x[s["rs1"]]
                for i in range(STORES[s["m"]]):
                    mem[a + i] = (v >> (8 * i)) & 0xFF
            elif k == "li":
                x[s["rd"]] = s["c"] % (1 << 32)
                dont_care.discard(s["rd"])
            x[0] = 0
            if s.get("idx") is not None:
                res.count("indexed_accesses_run")
                if [d for d in data if d["name"] == s["var"]][0]["type"] == "zero":
                    res.count("zero_indexed")
        n = 0
        try:
            while not sim.is_done() and n < 400:
                sim.step()
                n += 1
        except Exception as e:
            res.violation("C05", "run-failed", "running the assembled data program raised %r" % (e,), case)
            return
        rr = real_regs(sim)
        bad = [(r, hex(rr[r]), hex(x[r])) for r in range(32) if rr[r] != x[r] and r not in dont_care]
        if bad:
            res.violation("C05", "name-index-effect", "after running (reg, real, documented): %s" % bad[:4], case)
            return
        gm = {a: int(v) for a, v in sim.state.memory.memory_file.items()}
        if any(gm.get(a, 0) != mem.get(a, 0) for a in set(gm) | set(mem)):
            d = sorted(a for a in set(gm) | set(mem) if gm.get(a, 0) != mem.get(a, 0))
            res.violation("C05", "name-index-store", "memory after running differs at %s" % [(hex(a), gm.get(a, 0), mem.get(a, 0)) for a in d[:4]], case)
            return
        finals.append((rr, gm))
    crossing = any("var" in s_ and s_["k"] in ("ldv", "stv") and (A.var_addr(vars_, s_["var"], s_["idx"]) % 4) + (LOADS[s_["m"]][0] if s_["k"] == "ldv" else STORES[s_["m"]]) > 4 for s_ in stmts)
    if case.get("dcache") and ds is None and finals and not crossing:  # a cache rejects word-crossing accesses by design (C03)
        # the same program behind a data cache (the assembler preloads .data through the cache system):
        # declared values and name[i] addressing must not depend on it, in either mode
        from . import pipe as _pipe

        for mode in ("single", "five"):
            sim = make_riscv(mode, dcache=case["dcache"])
            try:
                sim.load_program(A.Renderer(case["renders"][0]).program(ast, data_first=case["renders"][1] % 2 == 0))
                n = 0
                while not sim.is_done() and n < 3000:
                    sim.step()
                    n += 1
            except Exception as e:
                res.violation("C05", "run-failed", "with data cache %r (%s): %r" % (case["dcache"], mode, e), case)
                return
            rr = real_regs(sim)
            gm = _pipe.mem_image(sim, list(mem))
            bad = [(r, hex(rr[r]), hex(x[r])) for r in range(32) if rr[r] != x[r] and r not in dont_care]
            badm = sorted(a for a in set(gm) | set(mem) if gm.get(a, 0) != mem.get(a, 0))
            res.count("data_programs_behind_cache")
            if bad or badm:
                res.violation("C05", "name-index-effect", "%s mode behind data cache %r: registers (reg, real, documented) %s, logical memory differs at %s" % (mode, case["dcache"], bad[:4], [(hex(a), gm.get(a, 0), mem.get(a, 0)) for a in badm[:4]]), case)
                return
            # the declared values are what a load leaves behind whatever the simulation (and its cache) held before:
            # (a) the same text loaded again into the simulation that has just run it, (b) a fresh simulation that was
            # first given a sibling program with other values, looked at through the cache, and then this program
            for variant in ("after-run", "after-sibling"):
                try:
                    if variant == "after-sibling":
                        sim = make_riscv(mode, dcache=case["dcache"])
                        sib = [dict(d_, vals=[(v_ ^ 0x5A5A5A5A) for v_ in d_["vals"]]) if "vals" in d_ else d_ for d_ in data]
                        sim.load_program(A.Renderer(case["renders"][1]).program({"data": sib, "stmts": stmts, "labels": {}}, data_first=True))
                        _pipe.mem_image(sim, list(mem))
                    sim.load_program(A.Renderer(case["renders"][0]).program(ast, data_first=case["renders"][1] % 2 == 0))
                except Exception as e:
                    res.violation("C05", "load-failed", "with data cache %r (%s, %s): %r" % (case["dcache"], mode, variant, e), case)
                    return
                res.count("data_images_compared_after_reload_behind_cache")
                for _pass in (1, 2):
                    badi = check_image(sim, img, end)
                    if badi:
                        res.violation("C05", "data-image", "%s mode behind data cache %r, program loaded %s (pass %d over the image): %s" % (mode, case["dcache"], variant, _pass, badi), case)
                        return
    res.count("segment_orders_compared")
    types = {d["type"] for d in data}
    if len(types) >= 3 and any(s.get("idx") for s in stmts):
        res.nontrivial(h64([data, stmts]))


def gen_data_case(rng):
    data = A.gen_data(rng, 6)
    while not data:
        data = A.gen_data(rng, 6)
    ds = rng.choice([0x4001, 0x4002, 0x4003, 0x4004, 0x5003, 0x8001, 0x0, 0x100, 0x7F0, 0x800, 0xFFC, 0x1000]) if rng.random() < 0.15 else None
    vars_, img, _ = A.layout(data, None if ds is None else (ds + 3) & ~3)
    stmts = []
    small_pool = rng.random() < 0.5
    for _ in range(rng.randint(1, 10)):
        name = rng.choice(sorted(vars_))
        addr, w, n = vars_[name]
        idx = rng.randrange(n)
        use_idx = idx > 0 or rng.random() < 0.5
        k = rng.random()
        rd, rs1, rs2 = rng.randrange(1, 32), rng.randrange(32), rng.randrange(1, 32)
        if small_pool:
            # few registers: scratch / destination registers are re-used while they still hold earlier results
            rd, rs1, rs2 = rng.choice([6, 7, 28, 29]), rng.choice([0, 6, 7, 28, 29]), rng.choice([6, 7, 28, 29])
        if k < 0.3:
            stmts.append({"k": "la", "rd": rd, "var": name, "idx": idx if use_idx else None})
        elif k < 0.65:
            stmts.append({"k": "ldv", "m": rng.choice(A.LD), "rd": rd, "var": name, "idx": idx if use_idx else None})
        elif k < 0.9:
            stmts.append({"k": "stv", "m": rng.choice(A.ST), "rs1": rs1, "rs2": rs2, "var": name, "idx": idx if use_idx else None})
        else:
            stmts.append({"k": "li", "rd": rd, "c": rng.choice(A.LI_CONSTS + [rng.getrandbits(32)])})
    case = {"kind": "data", "data": data, "stmts": stmts, "renders": [rng.getrandbits(30) + 1, rng.getrandbits(30) + 1]}
    if ds is not None:
        case["data_start"] = ds
    elif rng.random() < 0.4:
        case["dcache"] = {"ib": rng.randint(0, 2), "bb": rng.randint(0, 3), "assoc": rng.choice([1, 2, 4]), "policy": rng.choice(["lru", "plru"]), "wt": rng.random() < 0.4, "pen": rng.choice([0, 2])}
    return case


def run_li_case(case, res):
    """31 constants per program: li x1..x31, run on the real simulator"""
    R = A.Renderer(case["render"])
    stmts = [{"k": "li", "rd": i + 1, "c": c} for i, c in enumerate(case["consts"])]
    text = R.program({"data": [], "stmts": stmts, "labels": {}})
    try:
        sim = load(text)
        n = 0
        while not sim.is_done() and n < 100:
            sim.step()
            n += 1
    except Exception as e:
        res.violation("C05", "li-failed", "li program failed: %r\n%s" % (e, text[:400]), case)
        return
    rr = real_regs(sim)
    for i, c in enumerate(case["consts"]):
        res.count("li_constants_run")
        lo = c & 0xFFF
        if lo >= 0x800 and not (-2048 <= c <= 2047):
            res.count("li_with_carry")
            res.nontrivial(h64(["li", c]))
        if rr[i + 1] != c % (1 << 32):
            res.violation("C05", "li-constant", "li x%d, %d leaves %#x, expected %#x" % (i + 1, c, rr[i + 1], c % (1 << 32)), case)
            return


HIGH_PARTS = [0, 1, 0x7FFFF, 0x80000, 0xFFFFE, 0xFFFFF]


def li_sweep_consts():
    """every low-12-bit pattern x boundary high parts"""
    out = []
    for hi in HIGH_PARTS:
        for lo in range(4096):
            out.append((hi << 12) | lo)
    return out


DOC_EXAMPLE = """.data
    empty_array: .zero 64 # reserves space for 64 words (256 bytes)
    # The following two declarations of 'my_var1' are equivalent,
    # since zero padding is used to ensure word alignment of new variables/arrays.
    my_var1: .byte -128
    # my_var1: .byte -128, 0, 0, 0
    my_var2: .half 0x1234, 0b1010, 999
    my_var3: .word 0x12345678, 0b111
    text1:   .string "Hello, World!"  # ASCII byte array
.text
    la x1, my_var1     # load address of my_var1 into x1
    lh x2, my_var2     # load halfword from my_var2 into x2
    lh x3, my_var2[0]  # same effect as above
    lh x4, my_var2[2]  # x4 = 999
    lw x5, my_var3[1]  # x5 = 0b111
    lb x6, text1[11]   # x6 = '!'
"""


def run_doc(res):
    case = {"kind": "doc"}
    sim = load(DOC_EXAMPLE)
    sim.run()
    rr = real_regs(sim)
    # expected values computed from the stated semantics (layout: 64 words, then word-aligned variables)
    base = 0x4000 + 256
    want = {1: base, 2: 0x1234, 3: 0x1234, 4: 999, 5: 7, 6: ord("Hello, World!"[11])}
    res.count("doc_example")
    res.evaluations += 1
    bad = [(r, hex(rr[r]), hex(v)) for r, v in want.items() if rr[r] != v]
    if bad:
        res.violation("C05", "doc-example", "documented example: (reg, real, documented semantics) %s" % bad, case)
    else:
        res.nontrivial(h64("doc-example"))
    # 'my_var1: .byte -128' is equivalent to '.byte -128, 0, 0, 0' (zero padding)
    s2 = load(DOC_EXAMPLE.replace("    my_var1: .byte -128\n", "    my_var1: .byte -128, 0, 0, 0\n"))
    a = {k: int(v) for k, v in sim.state.memory.memory_file.items() if int(v)}
    # the first run executed loads only, memory unchanged
    b = {k: int(v) for k, v in s2.state.memory.memory_file.items() if int(v)}
    if a != b:
        res.violation("C05", "doc-example", "documented equivalence of '.byte -128' and '.byte -128, 0, 0, 0' does not hold", case)


# --------------------------------------------------------------------------------------- C14

IMM_SETS = {
    "i": [-2048, -2047, -1, 0, 1, 2, 2046, 2047],
    "sh": [0, 1, 15, 16, 30, 31],
    "b": [-4096, -4094, -2, 0, 2, 4, 4092, 4094],
    "u": [0, 1, 0x7FFFF, 0x80000, 0x80001, 0xFFFFF],
    "j": [-(1 << 20), -(1 << 20) + 2, -4, -2, 0, 2, 4, (1 << 20) - 2],
    "csr": [0, 1, 0x300, 0x7FF, 0xC00, 0xFFF],
    "uimm": [0, 1, 15, 31],
}


def rt_candidates(rng, n):
    """instruction descriptions: (mnemonic, kwargs)"""
    from architecture_simulator.isa.riscv.rv32i_instructions import instruction_map

    out = []
    mns = [m for m in sorted(instruction_map) if m != "fence"]
    for _ in range(n):
        m = rng.choice(mns)
        out.append(rt_one(rng, m))
    return out


def rt_one(rng, m, regs=None):
    rd, rs1, rs2 = regs or (rng.randrange(32), rng.randrange(32), rng.randrange(32))
    pick = lambda key, lo, hi, even=False: rng.choice(IMM_SETS[key]) if rng.random() < 0.5 else (rng.randint(lo, hi) & (~1 if even else -1))
    if m in A.R3:
        return (m, {"rd": rd, "rs1": rs1, "rs2": rs2})
    if m in A.IM or m in A.LD or m == "jalr":
        return (m, {"rd": rd, "rs1": rs1, "imm": pick("i", -2048, 2047)})
    if m in A.SH:
        return (m, {"rd": rd, "rs1": rs1, "imm": pick("sh", 0, 31)})
    if m in A.ST:
        return (m, {"rs1": rs1, "rs2": rs2, "imm": pick("i", -2048, 2047)})
    if m in A.BR:
        return (m, {"rs1": rs1, "rs2": rs2, "imm": pick("b", -4096, 4094, True)})
    if m in ("lui", "auipc"):
        return (m, {"rd": rd, "imm": pick("u", 0, 0xFFFFF)})
    if m == "jal":
        if rng.random() < 0.5:  # absolute target (printed form) incl. address 0 and the neighbourhood of the instruction
            return (m, {"rd": rd, "abs": rng.choice([0, 0, 4, 8, 12, 2 * rng.randrange(0, 300), -4, -8])})
        return (m, {"rd": rd, "imm": pick("j", -(1 << 20), (1 << 20) - 2, True)})
    if m in ("csrrw", "csrrs", "csrrc"):
        return (m, {"rd": rd, "csr": pick("csr", 0, 0xFFF), "rs1": rs1})
    if m in ("csrrwi", "csrrsi", "csrrci"):
        return (m, {"rd": rd, "csr": pick("csr", 0, 0xFFF), "uimm": pick("uimm", 0, 31)})
    return (m, {})


def build(m, kw, addr):
    from architecture_simulator.isa.riscv.rv32i_instructions import instruction_map

    cls = instruction_map[m]
    if m == "jal":
        imm = kw["abs"] - addr if "abs" in kw else kw["imm"]
        return cls(rd=kw["rd"], imm=imm, abs_addr=addr + imm)
    if m in ("ecall", "ebreak"):
        return cls()
    return cls(**kw)


def run_rt_case(case, res):
    """batch: instruction k sits at address 4k; its repr() is re-assembled at the same address"""
    B = case.get("ibase", 0)
    if B:
        res.count("round_trip_batches_at_other_instruction_base")
        objs = [build(m, kw, B + 4 * k) for k, (m, kw) in enumerate(case["instrs"])]
        text = "\n".join(repr(o) for o in objs)
        try:
            sim = load(text, ibase=B)
        except Exception as e:
            res.violation("C14", "print-not-assemblable", "printed text failed to assemble into an instruction memory starting at %#x: %r\n%s" % (B, e, text[:300]), case)
            return
        im = sim.state.instruction_memory
        for k, o in enumerate(objs):
            res.count("round_trips")
            try:
                r = im.read_instruction(B + 4 * k)
            except Exception as e:
                res.violation("C14", "round-trip", "no instruction at %d after re-assembling %r (instruction memory starts at %#x)" % (B + 4 * k, o, B), case)
                return
            if type(r) is not type(o) or fields(r) != fields(o):
                res.violation("C14", "round-trip", "address %d (instruction memory starts at %#x): %r (%s %r) re-assembles to %r (%s %r)" % (B + 4 * k, B, o, type(o).__name__, fields(o), r, type(r).__name__, fields(r)), case)
                return
        return
    objs = [build(m, kw, 4 * k) for k, (m, kw) in enumerate(case["instrs"])]
    text = "\n".join(repr(o) for o in objs)
    try:
        sim = load(text)
    except Exception as e:
        # find the offending line for the witness
        res.violation("C14", "print-not-assemblable", "printed text failed to assemble: %r\n%s" % (e, text[:300]), case)
        return
    im = sim.state.instruction_memory
    for k, o in enumerate(objs):
        res.count("round_trips")
        res.count("mn_" + o.mnemonic)
        try:
            r = im.read_instruction(4 * k)
        except Exception as e:
            res.violation("C14", "round-trip", "no instruction at %d after re-assembling %r" % (4 * k, o), case)
            return
        if type(r) is not type(o) or fields(r) != fields(o):
            res.violation("C14", "round-trip", "address %d: %r (%s %r) re-assembles to %r (%s %r)" % (4 * k, o, type(o).__name__, fields(o), r, type(r).__name__, fields(r)), case)
            return
        f = fields(o)
        if f.get("imm") or f.get("csr") or f.get("uimm") or o.mnemonic == "jal":
            res.nontrivial(h64([o.mnemonic, f, 4 * k]))
    # the command-line front end's instruction listing is one more outlet of the printed text: the text shown
    # behind each address must assemble, at that address, to the instruction stored there
    import re as _re
    import warnings as _w

    with _w.catch_warnings():
        _w.simplefilter("ignore")
        from architecture_simulator.cli.cli import instr_mem_repr
    s0 = make_riscv("single")
    for k, o in enumerate(objs):
        s0.state.instruction_memory.write_instruction(4 * k, o)
    rows = {}
    for line in instr_mem_repr(s0).splitlines():
        m_ = _re.match(r"^([0-9A-Fa-f]{8})\s+(\S.*?)\s*$", line)
        if m_:
            rows[int(m_.group(1), 16)] = m_.group(2)
    res.count("cli_listings_checked")
    if sorted(rows) != [4 * k for k in range(len(objs))]:
        res.violation("C14", "cli-listing", "the CLI listing shows the addresses %s..., the instruction memory holds %d instructions from 0" % (sorted(rows)[:6], len(objs)), case)
        return
    differing = [a for a in rows if rows[a] != repr(objs[a // 4])]
    if differing:
        # another spelling is fine as long as it assembles to the same instruction at the same address
        try:
            s3 = load("\n".join(rows[a] for a in sorted(rows)))
            bad = [a for a in differing if type(s3.state.instruction_memory.read_instruction(a)) is not type(objs[a // 4]) or fields(s3.state.instruction_memory.read_instruction(a)) != fields(objs[a // 4])]
        except Exception as e:
            bad = differing
        if bad:
            a = bad[0]
            res.violation("C14", "cli-listing", "the CLI listing shows %r at address %d; the instruction stored there is %r (%r) and the shown text does not assemble to it" % (rows[a], a, objs[a // 4], fields(objs[a // 4])), case)
            return


def run_outlets_case(case, res):
    """the other outlets of the printed instruction text: (a) listing of a memory filled and PATCHED through the
    public write_instruction() with listing requests in between, (b) the pipeline view (instruction text shown for
    the fetch stage) while stepping, (c) the error message of a run-time failure.  Every text must be the text that
    re-assembles, at the address it is shown for, to the instruction stored there."""
    from ..common import make_riscv as mk, install_program, set_regs, preload_mem, build_instr
    from architecture_simulator.simulation.runtime_errors import InstructionExecutionException

    prog = case["prog"]
    for mode in ("single", "five"):
        sim = mk(mode, icache=case.get("icache"))
        im = sim.state.instruction_memory
        objs = {}
        # (a) write_instruction one by one, listing requested in between, a few instructions patched in place
        order = list(range(len(prog)))
        if case.get("write_order"):
            order = case["write_order"]
        for n_, i in enumerate(order):
            d = prog[i]
            o = build_instr(d, 4 * i)
            im.write_instruction(4 * i, o)
            objs[4 * i] = o
            if n_ % 3 == 0:
                im.get_representation()
        for (i, d) in case["patches"]:
            if i < len(prog):
                o = build_instr(d, 4 * i)
                im.get_representation()
                im.write_instruction(4 * i, o)
                objs[4 * i] = o
        seq_ = im.get_representation()
        if [a for a, _ in seq_] != sorted(objs):
            res.violation("C14", "listing-order", "%s mode: the listing gives the addresses %s, the instruction memory holds %s (the printed listing is read in this order when it is re-assembled)" % (mode, [a for a, _ in seq_][:8], sorted(objs)[:8]), case)
            return
        lst = dict(seq_)
        res.count("listings_after_write_instruction")
        for a, o in objs.items():
            if lst.get(a) != repr(o):
                res.violation("C14", "listing-stale", "%s mode: after write_instruction() the listing shows %r at address %d, the instruction stored there prints as %r" % (mode, lst.get(a), a, repr(o)), case)
                return
        # the listing text re-assembles to the stored instructions
        try:
            s2 = load("\n".join(lst[a] for a in sorted(lst)))
        except Exception as e:
            res.violation("C14", "print-not-assemblable", "listing of a directly written program does not assemble: %r" % (e,), case)
            return
        for a, o in objs.items():
            r = s2.state.instruction_memory.read_instruction(a)
            if type(r) is not type(o) or fields(r) != fields(o):
                res.violation("C14", "round-trip", "address %d: %r re-assembles to %r" % (a, o, r), case)
                return
        if case.get("icache") and case["icache"]["bb"] >= 1 and (len(prog) + (mode == "five")) % 2 == 0:
            # a stub written behind a GAP of one or two empty words: it shares a cache block with the program's tail or
            # with the gap; the cache table must show it at the address it is stored at
            g_ = 1 + (len(prog) // 2) % 2
            stub = build_instr({"m": "addi", "rd": 5, "rs1": 5, "imm": 1}, 4 * (len(prog) + g_))
            im.write_instruction(4 * (len(prog) + g_), stub)
            lst[4 * (len(prog) + g_)] = repr(stub)
            res.count("stub_behind_a_gap_in_a_cached_block")
        # (b) + (c): run
        set_regs(sim, case["regs"])
        preload_mem(sim, case["mem"])
        ids = ("InstructionMemoryInstrText", "InstructionReadAddressText") if mode == "five" else ("instr-mem-instr-text", "instr-mem-read-addr-text")

        def view_ok(when, only_cache=False):
            vals = {} if only_cache else dict((i_, v) for (i_, _k, v) in (sim.get_riscv_five_stage_svg_update_values() if mode == "five" else sim.get_riscv_single_stage_svg_update_values()))
            txt, a = vals.get(ids[0]), vals.get(ids[1])
            if txt and a not in (None, ""):
                res.count("pipeline_view_texts_checked")
                if lst.get(int(a)) != txt:
                    res.violation("C14", "pipeline-view-text", "%s mode %s: pipeline view shows %r for address %s, listing says %r" % (mode, when, txt, a, lst.get(int(a))), case)
                    return False
            if case.get("icache"):
                # the instruction-cache table pairs every cached instruction text with an address
                for set_ in sim.get_instruction_cache_entries().sets:
                    for blk in set_.blocks:
                        for (a_, t_) in blk.address_value_list:
                            if a_ and t_ and str(t_).strip():
                                res.count("icache_table_texts_checked")
                                if lst.get(int(a_, 16)) != str(t_):
                                    res.violation("C14", "cache-table-text", "%s mode %s: the instruction-cache table shows %r at address 0x%s, the instruction stored there prints as %r" % (mode, when, t_, a_, lst.get(int(a_, 16))), case)
                                    return False
            return True

        k = 0
        while not sim.is_done() and k < 120:
            try:
                sim.step()
            except InstructionExecutionException as e:
                res.count("views_read_after_a_failed_step")
                if not view_ok("after the failed step %d" % (k + 1)):
                    return
                res.count("error_messages_checked")
                txt, a = e.instruction_repr, e.address
                if not txt or a not in lst or lst[a] != txt:
                    res.violation("C14", "error-message-text", "%s mode: error message prints %r for address %r; that text does not assemble to the instruction at that address (listing: %r)" % (mode, txt, a, lst.get(a) if a in lst else None), case)
                    return
                # the RENDERED message (what the user reads): "... executing '<text>' at address 0x<hex>: ..."
                import re as _re

                m_ = _re.search(r"'([^']*)' at address (0[xX][0-9A-Fa-f]+)", repr(e))
                if m_:
                    res.count("rendered_error_messages_checked")
                    if a >= 10:
                        res.count("rendered_error_address_ge_10")
                    t2, a2 = m_.group(1), int(m_.group(2), 16)
                    if lst.get(a2) != t2:
                        res.violation("C14", "error-message-text", "%s mode: the rendered error message says %r at address %s; the instruction stored at %d prints as %r (the failing instruction is at %d)" % (mode, t2, m_.group(2), a2, lst.get(a2), a), case)
                        return
                break
            except Exception:
                break
            k += 1
            if not view_ok("step %d" % k):
                return
        if case.get("icache") and len(lst) >= 2:
            # ANOTHER program is loaded into a (not started) simulation whose cache table was last looked at after j
            # fetches of the first program; the new program is fetched j times with nobody looking in between: the
            # table shows the NEW program's texts at the addresses where they are stored
            def table_ok(sim_, lst_, when):
                for set_ in sim_.get_instruction_cache_entries().sets:
                    for blk in set_.blocks:
                        for (a_, t_) in blk.address_value_list:
                            if a_ and t_ and str(t_).strip():
                                res.count("icache_table_texts_checked")
                                if lst_.get(int(a_, 16)) != str(t_):
                                    res.violation("C14", "cache-table-text", "%s mode %s: the instruction-cache table shows %r at address 0x%s, the instruction stored there prints as %r" % (mode, when, t_, a_, lst_.get(int(a_, 16))), case)
                                    return False
                return True

            texts = [lst[a_] for a_ in sorted(lst)]
            s3 = mk(mode, icache=case.get("icache"))
            try:
                s3.load_program("\n".join(texts))
                l1 = dict(s3.state.instruction_memory.get_representation())
                addrs = sorted(l1)[: 1 + len(texts) % 4]
                for a_ in addrs:
                    s3.state.instruction_memory.read_instruction(a_)
                if not table_ok(s3, l1, "after %d fetches of the first program" % len(addrs)):
                    return
                s3.load_program("\n".join(texts[1:] + texts[:1]))
                l2 = dict(s3.state.instruction_memory.get_representation())
                for a_ in addrs:
                    if a_ in l2:
                        s3.state.instruction_memory.read_instruction(a_)
            except Exception:
                continue
            res.count("icache_tables_checked_after_reload")
            if not table_ok(s3, l2, "after a second program was loaded and fetched %d times without looking" % len(addrs)):
                return
    res.nontrivial(h64(case))


# --------------------------------------------------------------------------------------- driver


def run_case(prop, case, res):
    k = case["kind"]
    if k == "ast":
        run_ast_case(case, res, prop)
    elif k == "data":
        run_data_case(case, res)
    elif k == "li":
        run_li_case(case, res)
    elif k == "rt":
        run_rt_case(case, res)
    elif k == "doc":
        run_doc(res)
    elif k == "outlets":
        run_outlets_case(case, res)


def run_shard(spec, res):
    prop = spec["prop"]
    rng = rng_for(prop, spec["tier"], spec["seed"], spec["kind"], spec["shard"])
    k = spec["kind"]
    if k == "directed":
        for c in directed_c04():
            guarded(run_case, prop, c, res)
            res.evaluations += 1
    elif k == "ast" or k == "listing":
        for it in range(spec["n"]):
            ast = A.gen_ast(rng)
            case = {"kind": "ast", "data": ast["data"], "stmts": ast["stmts"], "labels": ast["labels"], "renders": [0] + [rng.getrandbits(30) + 1 for _ in range(spec.get("renders", 2) - 1)], "seed": rng.getrandbits(30)}
            guarded(run_case, prop, case, res)
            res.evaluations += 1
            if it < 1:
                res.sample({"ast": case, "rendering": A.Renderer(case["renders"][-1]).program(ast)}, 3)
    elif k == "doc":
        run_doc(res)
    elif k == "data":
        for it in range(spec["n"]):
            case = gen_data_case(rng)
            guarded(run_case, prop, case, res)
            res.evaluations += 1
            if it < 1:
                res.sample({"case": case, "rendering": A.Renderer(case["renders"][0]).program({"data": case["data"], "stmts": case["stmts"], "labels": {}}, data_first=True)}, 3)
    elif k == "addr_sweep":
        # variable addresses on every lui/addi carry boundary: a '.zero' pad places the variable, name[i] walks across
        targets = [(hi << 12) | lo for hi in (0x4, 0x5, 0x7, 0x8, 0xF, 0x10, 0x7FFFF, 0x80000, 0xFFFFE) for lo in (0x000, 0x004, 0x7F4, 0x7F8, 0x7FC, 0x800, 0x804, 0xFF4, 0xFF8, 0xFFC)]
        targets = [t for t in targets if t >= 0x4004]
        for ti, T in enumerate(targets):
            if ti % spec["of"] != spec["shard"]:
                continue
            t = rng.choice(["byte", "half", "word"])
            vals = [rng.getrandbits(31) for _ in range(6)]
            data = [{"name": "pad", "type": "zero", "n": (T - A.DATA_BASE) // 4}, {"name": "tv", "type": t, "vals": vals}, {"name": "after", "type": "word", "vals": [0x55AA]}]
            stmts = []
            for idx in (None, 0, 1, 2, 3, 5):
                rd = rng.randrange(1, 32)
                stmts.append({"k": "la", "rd": rd, "var": "tv", "idx": idx})
                stmts.append({"k": "ldv", "m": rng.choice(A.LD), "rd": rng.randrange(1, 32), "var": "tv", "idx": idx})
                stmts.append({"k": "stv", "m": rng.choice(A.ST), "rs1": rng.randrange(32), "rs2": rng.randrange(1, 32), "var": rng.choice(["tv", "after"]), "idx": idx if idx in (None, 0) else None})
            case = {"kind": "data", "data": data, "stmts": stmts, "renders": [rng.getrandbits(30) + 1, rng.getrandbits(30) + 1]}
            guarded(run_case, prop, case, res)
            res.evaluations += 1
            res.count("address_sweep_targets")
        res.extra["address_sweep"] = "variables placed (via a .zero pad) on %d addresses around every lui/addi carry boundary, accessed by la / load / store by name with indices" % len(targets)
    elif k == "li_sweep":
        consts = li_sweep_consts()
        tier = spec["tier"]
        # quick: every low-12-bit pattern x 6 high parts once (rotating spelling); thorough: x 4 spellings + negatives
        variants = [lambda c: c] if tier == "quick" else [lambda c: c, lambda c: c - (1 << 32), lambda c: c + (1 << 32), lambda c: -((-c) % (1 << 32)) if c else 0]
        for vi, f in enumerate(variants):
            cs = [f(c) for c in consts]
            for i in range(0, len(cs), 31):
                if (i // 31) % spec["of"] != spec["shard"]:
                    continue
                case = {"kind": "li", "consts": cs[i : i + 31], "render": 1 + (i // 31) % 7 + 10 * vi}
                guarded(run_case, prop, case, res)
                res.evaluations += 1
        res.extra["li_sweep"] = "every low-12-bit pattern x high parts %s x %d spelling variant(s)" % ([hex(h) for h in HIGH_PARTS], len(variants))
    elif k == "li":
        for it in range(spec["n"]):
            cs = [rng.choice([rng.getrandbits(32), -rng.getrandbits(31), rng.getrandbits(12) - 2048, (rng.getrandbits(20) << 12) | rng.choice([0x7FF, 0x800, 0xFFF, 0]), rng.getrandbits(34), -rng.getrandbits(33)]) for _ in range(31)]
            case = {"kind": "li", "consts": cs, "render": rng.getrandbits(30) + 1}
            guarded(run_case, prop, case, res)
            res.evaluations += 1
            if it < 1:
                res.sample(case, 2)
    elif k == "rt":
        for it in range(spec["n"]):
            case = {"kind": "rt", "instrs": [list(x) for x in rt_candidates(rng, rng.choice([1, 8, 64]))]}
            case["instrs"] = [(m, kw) for m, kw in case["instrs"]]
            if it % 4 == 3:
                case["ibase"] = rng.choice([0x40, 0x100, 0x404, 0x1000, 0x2000])
            guarded(run_case, prop, case, res)
            res.evaluations += 1
            if it < 1:
                res.sample(case["instrs"][:6], 2)
    elif k == "outlets":
        from ..gen import progs as G

        for it in range(spec["n"]):
            if rng.random() < 0.5:
                prog, regs = G.soup_program(rng, rng.randint(1, 16), aligned=rng.random() < 0.5), G.soup_regs(rng, bad_ecall=0.5)
                if rng.random() < 0.4:
                    regs["31"] = rng.choice([0, 0x3FFC, 0x3FC0])
            else:
                prog, regs = G.structured_program(rng, size=rng.randint(3, 20), aligned=True, faults=True)
            if rng.random() < 0.3:
                prog = prog + [{"m": "addi", "rd": 17, "rs1": 0, "imm": 7}, {"m": "ecall"}]  # failing ecall as the last instruction
            patches = [(rng.randrange(len(prog)), G._alu(rng, [1, 2, 3])) for _ in range(rng.choice([0, 1, 2]))] if prog else []
            case = {"kind": "outlets", "prog": prog, "regs": regs, "mem": G.init_mem(rng), "patches": patches}
            if rng.random() < 0.4:
                case["icache"] = {"ib": rng.choice([0, 1]), "bb": rng.choice([1, 2, 2]), "assoc": rng.choice([1, 2]), "policy": "lru", "pen": 0}
            if rng.random() < 0.5:
                case["write_order"] = rng.sample(range(len(prog)), len(prog))
            guarded(run_case, prop, case, res)
            res.evaluations += 1
            if it < 1:
                res.sample(case, 2)
    elif k == "rt_regs":
        # all 32 registers in every operand position for every mnemonic (others random)
        from architecture_simulator.isa.riscv.rv32i_instructions import instruction_map

        for m in sorted(instruction_map):
            if m == "fence":
                continue
            batch = []
            for posn in range(3):
                for r in range(32):
                    regs = [rng.randrange(32) for _ in range(3)]
                    regs[posn] = r
                    batch.append(rt_one(rng, m, tuple(regs)))
            for i in range(0, len(batch), 48):
                guarded(run_case, prop, {"kind": "rt", "instrs": batch[i : i + 48]}, res)
                res.evaluations += 1
