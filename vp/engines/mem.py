"""Engine `mem` - C18: the uncached data memory (as built by RiscvArchitecturalState) and the TOY memory
(as built by ToyArchitecturalState) against the flat little-endian reference under access histories."""
from ..common import guarded, rng_for, h64, M32
from ..refmodels.refcache import FlatMem

RULE = {
    "C18": "histories of 100-150 reads/writes of width 1/2/4/8 at aligned/unaligned addresses around 2^14, 2^32, 0, negative and >=2^32 spellings with overlapping writes of different widths on the real RISC-V data memory, and of 16/32/64-bit accesses on the TOY memory (addresses around 0 and 4095/4096); "
    "every read result, every raised / not raised MemoryAddressError and the whole touched image are compared with the flat reference after each operation. non-trivial = history with >=1 overlapping mixed-width read of written data, >=1 rejected access and >=1 wrapped address (TOY: >=1 rejected and >=1 multi-cell access); distinct by case hash."
}
ASSUMPTIONS = {"C18": ["a multi-byte write that straddles the valid range may leave its in-range bytes written or not (DESIGN 5-r2); the reference re-synchronises on exactly those bytes, each of which must hold the old or the new value"]}
REQUIRED = {"C18": ["reads_compared", "writes_applied", "rejected_low", "rejected_straddle", "wrapped_addresses", "outside_unchanged_checks", "toy_ops", "toy_rejected", "width8_ops", "unaligned_ops", "writes_with_other_value_types"]}


def plan(prop, tier, seed):
    q = tier == "quick"
    return [{"kind": "rv", "n": 120 if q else 4000, "shard": i} for i in range(8 if q else 16)] + [{"kind": "toy", "n": 120 if q else 3000, "shard": i} for i in range(4 if q else 8)] + [{"kind": "directed", "shard": 0}]


def _val(rng, a, w):
    """stored values: random, or made of the bytes a sparse / memoising store treats specially (0x00 lanes, all ones,
    sign bits), or coinciding with the address / the access width"""
    k = rng.random()
    if k < 0.6:
        return rng.getrandbits(8 * w)
    if k < 0.85:
        return int.from_bytes(bytes(rng.choice([0, 0, 0xFF, 0x80, 0x7F, 1, rng.getrandbits(8)]) for _ in range(w)), "little")
    return rng.choice([0, a, a >> 2, w, (1 << (8 * w)) - 1, 1 << (8 * w - 1)]) & ((1 << (8 * w)) - 1)


def gen_rv(rng, nops):
    if rng.random() < 0.03:
        nops *= 8  # more than 512 accesses on one object
    anchors = [0x4000, 0x4000, 0x4010, 0x1_0000_0000, 0x1_0000_0000, 0, 0x8000_0000, rng.randrange(0x4000, 1 << 32), rng.choice([0x1000, 0x2000, 0x1400, 0x3FF0])]
    ops = []
    for _ in range(nops):
        a = rng.choice(anchors) + rng.randrange(-9, 10)
        k = rng.random()
        if k < 0.1:
            a -= 1 << 32
        elif k < 0.2:
            a += (1 << 32) * rng.choice([1, 2])
        w = rng.choice([1, 2, 4, 8])
        ops.append(["w" if rng.random() < 0.5 else "r", a, w, _val(rng, a, w)])
        _spell(rng, ops[-1])
        if rng.random() < 0.12:
            ops.append(list(ops[-1]))  # exactly the same access again (also after a rejected one)
    return {"kind": "rv", "ops": ops}


def _spell(rng, op):
    """a write of width w stores the low 8w bits of the value it is given, whatever integer type carries it: the
    caller may hand over a plain int, a wider fixed-width integer (a register value) or a negative number"""
    if op[0] != "w" or rng.random() > 0.2:
        return
    w = op[2]
    k = rng.choice(["int", "wide-int", "neg-int", "u32", "i32", "u64"])
    if k == "wide-int":
        op[3] |= (rng.getrandbits(12) | 1) << (8 * w)
    elif k == "neg-int":
        op[3] -= 1 << (8 * w)
    elif k in ("u32", "i32") and w < 4:
        op[3] |= (rng.getrandbits(32 - 8 * w) | 1) << (8 * w)
    elif k == "u64" and w < 8:
        op[3] |= (rng.getrandbits(64 - 8 * w) | 1) << (8 * w)
    op.append(k)


def gen_full(rng, nops):
    bits = rng.choice([32, 32, 8, 16])
    top = 1 << bits
    ops = []
    for _ in range(nops):
        a = rng.choice([0, 0, top, top, top // 2, rng.randrange(top)]) + rng.randrange(-9, 10)
        if rng.random() < 0.15:
            a += top * rng.choice([1, -1, 2])
        w = rng.choice([1, 2, 4, 8])
        ops.append(["w" if rng.random() < 0.5 else "r", a, w, _val(rng, a, w)])
        _spell(rng, ops[-1])
        if rng.random() < 0.12:
            ops.append(list(ops[-1]))
    return {"kind": "rv", "bits": bits, "ops": ops}


def gen_toy(rng, nops):
    ops = []
    for _ in range(nops):
        a = rng.choice([0, 0, 4095, 4095, 4096, 2048, rng.randrange(4096)]) + rng.randrange(-3, 4)
        if rng.random() < 0.05:
            a += rng.choice([1 << 12, 1 << 16, -(1 << 12)])
        w = rng.choice([2, 2, 4, 8])
        ops.append(["w" if rng.random() < 0.5 else "r", a, w, _val(rng, a, w)])
        _spell(rng, ops[-1])
        if rng.random() < 0.12:
            ops.append(list(ops[-1]))
    return {"kind": "toy", "ops": ops}


def run_case(prop, case, res):
    import fixedint
    from architecture_simulator.uarch.memory.memory import MemoryAddressError

    toy = case["kind"] == "toy"
    neighbours = []
    if case.get("neighbours"):
        # memories of the OTHER kind (and of another size) live in the same process, built before and after the
        # memory under test: every memory is its own store with its own cell width and range
        from architecture_simulator.uarch.toy.toy_architectural_state import ToyArchitecturalState as _T
        from architecture_simulator.uarch.riscv.riscv_architectural_state import RiscvArchitecturalState as _R

        neighbours.append(_T(unified_memory_size=case["neighbours"]).memory if not toy else _R().memory)
        neighbours.append(_T(unified_memory_size=case["neighbours"]).memory)
        res.count("histories_with_neighbour_memories")
    if toy:
        from architecture_simulator.uarch.toy.toy_architectural_state import ToyArchitecturalState

        m = ToyArchitecturalState().memory
        flat = FlatMem(lo=0, hi=4096, modulo=None, cell_bits=16)
        cells = lambda w: w // 2
        RD = {2: m.read_halfword, 4: m.read_word, 8: m.read_doubleword}
        WR = {2: (m.write_halfword, fixedint.UInt16), 4: (m.write_word, fixedint.UInt32), 8: (m.write_doubleword, fixedint.UInt64)}
    else:
        from architecture_simulator.uarch.riscv.riscv_architectural_state import RiscvArchitecturalState

        if case.get("bits"):
            # a caller-built wrapping byte memory whose valid range is the whole address space of `bits` bits (what the
            # repository's own instruction tests hand to the architectural state): every address is valid, an access
            # that runs past the top continues at address 0
            from architecture_simulator.uarch.memory.memory import Memory, AddressingType

            m = Memory(AddressingType.BYTE, case["bits"], True)
            flat = FlatMem(lo=0, hi=1 << case["bits"], modulo=1 << case["bits"])
            res.count("histories_on_full_range_wrapping_memory")
        elif len(case["ops"]) % 4 == 1:
            # the data memory of a state that was handed its own, smaller or shifted instruction memory: the first data
            # address is the documented 2^14 whatever the instruction memory looks like
            from architecture_simulator.uarch.memory.instruction_memory import InstructionMemory

            lo_, hi_ = [(0, 1 << 12), (0x100, 0x2000), (0, 1 << 13), (0x400, 0x1400)][len(case["ops"]) // 4 % 4]
            m = RiscvArchitecturalState(instruction_memory=InstructionMemory(address_range=range(lo_, hi_))).memory
            flat = FlatMem()
            res.count("histories_on_memory_of_state_with_custom_instruction_memory")
        else:
            m = RiscvArchitecturalState().memory
            flat = FlatMem()
        cells = lambda w: w
        RD = {1: m.read_byte, 2: m.read_halfword, 4: m.read_word, 8: m.read_doubleword}
        WR = {1: (m.write_byte, fixedint.UInt8), 2: (m.write_halfword, fixedint.UInt16), 4: (m.write_word, fixedint.UInt32), 8: (m.write_doubleword, fixedint.UInt64)}
    if case.get("neighbours"):
        from architecture_simulator.uarch.toy.toy_architectural_state import ToyArchitecturalState as _T
        from architecture_simulator.uarch.riscv.riscv_architectural_state import RiscvArchitecturalState as _R

        neighbours.append(_R().memory if toy else _T().memory)
        # the neighbours are used too (their own contents must never show up in the memory under test)
        neighbours[-1].write_halfword(5 if not toy else 0x4006, fixedint.UInt16(0xA5A5))
    touched = set()
    flags = set()
    written = set()

    def image():
        return {a: int(v) for a, v in m.memory_file.items() if int(v)}

    SPELL = {"int": int, "wide-int": int, "neg-int": int, "u32": fixedint.UInt32, "i32": fixedint.Int32, "u64": fixedint.UInt64}
    for i, (op, a, w, v, *sp) in enumerate(case["ops"]):
        n = cells(w)
        if sp:
            v = int(SPELL[sp[0]](v))  # the integer the memory is actually handed
        addrs = [flat.norm(a + k) for k in range(n)]
        valid = [flat.lo <= x < flat.hi for x in addrs]
        where = "op #%d %s addr=%d (%#x) width=%d" % (i, op, a, a & M32, w)
        res.count("toy_ops" if toy else "rv_ops")
        if w == 8:
            res.count("width8_ops")
        if not toy and a % w:
            res.count("unaligned_ops")
        if not toy and not (0 <= a < (1 << 32)):
            res.count("wrapped_addresses")
            flags.add("wrap")
        before = image()
        try:
            if op == "r":
                # the optional flags of the MemorySystem interface (statistics / "write to lower memory directly")
                # mean nothing to a flat memory: the same access with or without them
                fl = case.get("flags", {}).get(str(i))
                got = int(RD[w](a)) if fl is None or toy else int(RD[w](a, fl))
            else:
                f, T = WR[w]
                if sp:
                    T = SPELL[sp[0]]
                    res.count("writes_with_other_value_types")
                fl = case.get("flags", {}).get(str(i))
                if fl is None:
                    f(a, T(v))
                elif i % 2:
                    f(a, T(v), fl)
                else:
                    f(a, T(v), directly_write_to_lower_memory=fl)
                got = None
                if fl is not None:
                    res.count("accesses_with_explicit_flag")
            raised = None
        except MemoryAddressError as e:
            raised = e
        except Exception as e:
            res.violation("C18", "wrong-error", "%s raised %r" % (where, e), case)
            return
        if not all(valid):
            flags.add("reject")
            if toy:
                res.count("toy_rejected")
            elif any(valid):
                res.count("rejected_straddle")
            else:
                res.count("rejected_low")
            if raised is None:
                res.violation("C18", "invalid-access-accepted", "%s touches an address outside the valid range but did not raise MemoryAddressError (returned %r)" % (where, got), case)
                return
            after = image()
            if not any(valid):
                res.count("outside_unchanged_checks")
                if after != before:
                    res.violation("C18", "outside-access-changed-memory", "%s lies entirely outside the valid range but changed memory" % where, case)
                    return
            else:
                # straddling: in-range bytes of a WRITE may hold old or new value; everything else unchanged
                mask = (1 << flat.cell_bits) - 1
                allowed = {x: {before.get(x, 0), ((v >> (flat.cell_bits * k)) & mask) if op == "w" else before.get(x, 0)} for k, x in enumerate(addrs) if valid[k]}
                for x in set(before) | set(after):
                    if after.get(x, 0) != before.get(x, 0) and after.get(x, 0) not in allowed.get(x, ()):
                        res.violation("C18", "straddle-corrupts", "%s (rejected) changed cell %#x from %#x to %#x" % (where, x, before.get(x, 0), after.get(x, 0)), case)
                        return
                for x in allowed:
                    flat.b[x] = after.get(x, 0)  # re-synchronise on exactly those bytes
            continue
        if raised is not None:
            res.violation("C18", "valid-access-rejected", "%s lies within the valid range but raised %r" % (where, raised), case)
            return
        if op == "r":
            exp = flat.read(a, n)
            res.count("reads_compared")
            if got != exp:
                res.violation("C18", "read-mismatch", "%s returned %#x, last written bytes compose to %#x" % (where, got, exp), case)
                return
            if n > 1 and any(x in written for x in addrs):
                flags.add("mixed")
        else:
            flat.write(a, n, v)
            res.count("writes_applied")
            written.update(addrs)
        exp_img = {x: val for x, val in flat.b.items() if val}
        if image() != exp_img:
            im = image()
            d = sorted(x for x in set(im) | set(exp_img) if im.get(x, 0) != exp_img.get(x, 0))
            res.violation("C18", "image-mismatch", "after %s memory differs at %s" % (where, [(hex(x), im.get(x, 0), exp_img.get(x, 0)) for x in d[:4]]), case)
            return
    if toy and {"reject", "mixed"} <= flags or (not toy and {"reject", "mixed", "wrap"} <= flags):
        res.nontrivial(h64(case))


def directed():
    return [
        {"kind": "rv", "ops": [["w", 0x3FFE, 4, 0x11223344], ["r", 0x4000, 2, 0], ["w", 0xFFFFFFFE, 4, 0xAABBCCDD], ["r", 0xFFFFFFFE, 2, 0], ["w", -2, 2, 0x1234], ["r", 0xFFFFFFFE + (1 << 32), 2, 0], ["r", 0x3FFF, 1, 0], ["w", 0, 8, 5], ["w", 0x4001, 8, 0x1122334455667788], ["r", 0x4003, 4, 0], ["r", 0x4000, 8, 0], ["w", 0xFFFFFFF9, 8, 0xFFFFFFFFFFFFFFFF], ["r", 0xFFFFFFFC, 4, 0]]},
        {"kind": "rv", "ops": [["w", 0x4000, 4, 0x11111111], ["w", 0x4001, 1, 0x1234, "wide-int"], ["r", 0x4000, 4, 0], ["w", 0x4002, 1, -1, "neg-int"], ["r", 0x4000, 4, 0], ["w", 0x4008, 1, 0xAABBCCDD, "u32"], ["r", 0x4008, 8, 0], ["w", 0x4010, 2, 0x12345678, "u32"], ["r", 0x4010, 4, 0], ["w", 0x4014, 4, 0x123456789, "wide-int"], ["r", 0x4014, 8, 0]]},
        {"kind": "rv", "bits": 32, "ops": [["w", 0xFFFFFFFE, 4, 0xAABBCCDD], ["r", 0, 2, 0], ["r", 0xFFFFFFFF, 2, 0], ["w", -1, 2, 0x1122], ["r", 0xFFFFFFFC, 8, 0], ["w", (1 << 32) - 7, 8, 0x0102030405060708], ["r", 0, 4, 0], ["r", -3, 4, 0]]},
        {"kind": "rv", "bits": 8, "ops": [["w", 0xFE, 4, 0xAABBCCDD], ["r", 0, 2, 0], ["r", 0xFF, 2, 0], ["w", 255, 8, 0x0102030405060708], ["r", 0, 8, 0], ["r", 256 + 3, 1, 0], ["w", -1, 2, 0x5566], ["r", 0xFF, 1, 0], ["r", 0, 1, 0]]},
        {"kind": "toy", "ops": [["w", 10, 2, 0x12345, "wide-int"], ["r", 10, 4, 0], ["w", 12, 2, -1, "neg-int"], ["r", 11, 8, 0], ["w", 20, 2, 0xAABBCCDD, "u32"], ["r", 20, 4, 0]]},
        {"kind": "toy", "ops": [["w", 4095, 2, 0xBEEF], ["r", 4095, 2, 0], ["w", 4095, 4, 0x12345678], ["r", 4095, 2, 0], ["w", 4096, 2, 1], ["r", -1, 2, 0], ["w", 0, 8, 0x1122334455667788], ["r", 1, 4, 0], ["r", 4096 + 5, 2, 0], ["w", 4093, 8, 7], ["r", 4093, 2, 0]]},
    ]


def run_shard(spec, res):
    rng = rng_for("C18", spec["tier"], spec["seed"], spec["kind"], spec["shard"])
    if spec["kind"] == "directed":
        for c in directed():
            guarded(run_case, "C18", c, res)
            res.evaluations += 1
        return
    for it in range(spec["n"]):
        case = (gen_full(rng, rng.randint(40, 120)) if it % 5 == 4 else gen_rv(rng, rng.randint(60, 150))) if spec["kind"] == "rv" else gen_toy(rng, rng.randint(40, 120))
        if rng.random() < 0.3:
            case["neighbours"] = rng.choice([16, 100, 5000])
        if rng.random() < 0.4:
            case["flags"] = {str(i_): rng.random() < 0.5 for i_ in range(len(case["ops"])) if rng.random() < 0.3}
        guarded(run_case, "C18", case, res)
        res.evaluations += 1
        if it < 1:
            res.sample({"kind": case["kind"], "ops": case["ops"][:10], "n_ops": len(case["ops"])}, 3)
