"""Engine `pipe` - C02 (five-stage == single-cycle), C07 (documented schedule), C08 (interlock-free mode).

Monitors (attached from the harness, at the API boundary):
  * retire log: address in pipeline.pipeline_registers[4] after every step()  -> order (C02/C08) and cycle (C07/C08)
  * register file after every step vs. the timed reference's register file at that cycle
  * store log (wrappers on the memory system's write_*) and output growth: in order, exactly once
  * cycle counter increments vs. observed cache misses (penalty conservation)
  * final state, three-way: five-stage vs. real single-cycle vs. sequential reference
"""
import itertools

from ..common import guarded, Result, rng_for, h64, make_riscv, install_program, set_regs, preload_mem, real_regs, instr_text, M32
from ..refmodels.rv32 import SeqRef, Fault
from ..refmodels.timed5 import TimedRef
from ..gen import progs as G

RULE = {
    "C02": "programs: exhaustive sequences over a 14-symbol hazard-complete alphabet x 3 initial register files, plus random soup/structured programs and a directed hazard corpus; "
    "each runs on the real five-stage pipeline (hazard detection on) under the retire/register/store/output monitors and is compared three-way at the end. "
    "non-trivial = the reference schedule of the program contains >=1 interlock stall or >=1 flush or >=1 ecall drain (or the program faults); distinct by hash of (program, registers, memory).",
    "C07": "same runs as C02 plus independent straight-line programs (closed form n+4) and cached configurations (penalty conservation per step); "
    "non-trivial = program with >=1 stall/flush/ecall-drain whose predicted cycle count differs from n+4, or a cached run with >=1 miss; distinct by case hash.",
    "C08": "C02 programs run with hazard detection disabled against the interlock-free timed reference, plus nop-padded programs against the sequential reference; "
    "non-trivial = a stale operand read was actually observed (reference result differs from sequential order) or the program has a flush/ecall drain; distinct by case hash.",
}
ASSUMPTIONS = {
    p: [
        "timed reference R2 (vp/refmodels/timed5.py) encodes the documented schedule; 'in stage X' is read in the GUI's convention (instruction sits in X's output latch after the step)",
        "retirement is observed as the address in pipeline.pipeline_registers[4] after each step (observe_at of the property)",
        "programs are bounded (dynamic instruction bound); non-terminating programs are compared on the simulated prefix only",
    ]
    for p in ("C02", "C07", "C08")
}
REQUIRED = {
    "C02": ["steps_compared", "retire_events", "ref_id_stalls", "ref_flushes", "ref_ecall_drains", "stores_logged", "outputs_logged", "faults_compared", "three_way_final", "stall_and_flush_in_one_program"],
    "C07": ["steps_compared", "retire_events", "ref_id_stalls", "ref_flushes", "ref_ecall_drains", "straightline_n_plus_4", "penalty_steps_with_miss", "cycle_totals_compared"],
    "C08": ["steps_compared", "retire_events", "stale_reads_observed", "ref_flushes", "ref_ecall_drains", "padded_programs", "stall_counter_compared"],
}

NOP = {"m": "addi", "rd": 0, "rs1": 0, "imm": 0}


def alphabet(i, n):
    """14 hazard-complete instruction templates for position i of a length-n program."""
    return [
        {"m": "addi", "rd": 1, "rs1": 0, "imm": 8},  # producer without sources
        {"m": "add", "rd": 2, "rs1": 1, "rs2": 1},  # consumer rs1+rs2, producer x2
        {"m": "add", "rd": 1, "rs1": 1, "rs2": 2},  # consumer both, WAW/RAW on x1
        {"m": "sw", "rs1": 31, "rs2": 2, "imm": 0},  # consumer on rs2 only (store data)
        {"m": "lw", "rd": 1, "rs1": 31, "imm": 0},  # load producer
        {"m": "lw", "rd": 2, "rs1": 1, "imm": 0},  # possibly faulting load through a computed pointer
        {"m": "beq", "rs1": 1, "rs2": 2, "imm": 8},  # forward branch (taken or not)
        {"m": "bne", "rs1": 2, "rs2": 0, "imm": -4},  # backward branch
        {"m": "jal", "rd": 1, "imm": 8},  # link register = producer
        {"m": "jalr", "rd": 0, "rs1": 0, "imm": 4 * (i + 2)},  # through x0
        {"m": "jalr", "rd": 2, "rs1": 1, "imm": 1},  # through a register (bit 0 cleared)
        {"m": "ecall"},  # print / exit / invalid, argument produced 1..3 slots earlier
        {"m": "addi", "rd": 10, "rs1": 1, "imm": 1},  # producer of the ecall argument
        dict(NOP),
    ]


REGFILES = [
    {"1": 0x4000, "2": 0x4000, "10": 65, "17": 1, "31": 0x4000},  # beq taken, pointer valid, print int
    {"1": 4, "2": 0, "10": 7, "17": 93, "31": 0x4008},  # beq not taken, bne not taken, pointer invalid, exit
    {"1": 12, "2": 3, "10": 0x4000, "17": 5, "31": 0x4000},  # invalid ecall code, pointer invalid
]
MEM0 = {str(0x4000 + i): v for i, v in enumerate([8, 0, 0, 0, 0x10, 0x40, 0, 0, 4, 0, 0, 0])}


def plan(prop, tier, seed):
    q = tier == "quick"
    hz = prop != "C08"
    shards = [{"kind": "directed", "shard": 0, "hz": hz}]
    nmax = 3 if q else 5
    nsh = 8 if q else 64
    shards += [{"kind": "enum", "nmax": nmax, "shard": i, "of": nsh, "hz": hz} for i in range(nsh)]
    nr = 8 if q else 32
    shards += [{"kind": "random", "n": 500 if q else 3000, "shard": i, "hz": hz} for i in range(nr)]
    if prop in ("C02", "C08"):
        # every mnemonic x operand class through the stage-split path (alu_compute / memory_access / write_back)
        shards += [{"kind": "instr5", "n": 1500 if q else 25000, "shard": i, "hz": hz} for i in range(4 if q else 16)]
    if prop == "C07":
        shards += [{"kind": "straight", "n": 150 if q else 2500, "shard": i, "hz": True} for i in range(2)]
        # programs with a data segment loaded through the assembler into a simulation with caches and penalties:
        # the cycle counter starts at 0 and ends at steps + penalty x counted misses
        shards += [{"kind": "asmdata", "n": 60 if q else 1200, "shard": i, "hz": True} for i in range(2 if q else 8)]
    if prop in ("C07", "C02"):
        # the equivalence of the two modes (C02) and the schedule (C07) do not depend on the cache configuration
        shards += [{"kind": "cached", "n": 150 if q else 1500, "shard": i, "hz": True} for i in range(4 if q else 16)]
    if prop == "C08":
        shards += [{"kind": "padded", "n": 250 if q else 2500, "shard": i, "hz": False} for i in range(4 if q else 16)]
        # control hazards and ecall draining must be handled whatever the memory latencies are
        shards += [{"kind": "cached", "n": 150 if q else 1500, "shard": i, "hz": False} for i in range(3 if q else 12)]
        shards += [{"kind": "reload", "n": 120 if q else 2500, "shard": i, "hz": False} for i in range(2 if q else 6)]
    # one LONG run: every counter (cycles, instructions, branches, cache hits and accesses) passes 2^16 - the bounded
    # programs above never leave the range a narrow counter type would still get right
    shards += [{"kind": "long", "shard": 0, "hz": hz}]
    # the command line front end is one more way to configure and run a five-stage simulation
    shards += [{"kind": "cli", "shard": 0, "hz": hz}]
    return shards


def run_cli_shard(prop, hz, rng, res):
    """load <file> -fiveStage [-noDataHazardDetection] -run typed into architecture_simulator.cli.cli.main() (through a
    prompt_toolkit pipe input) in the documented camelCase spelling, in lower case and in upper case: the printed
    registers, cycle and instruction counts are those of the timed reference with / without the interlock."""
    spellings = ["-fiveStage -noDataHazardDetection", "-fivestage -nodatahazarddetection", "-FIVESTAGE -NODATAHAZARDDETECTION", "-noDataHazardDetection -fiveStage"] if not hz else ["-fiveStage", "-fivestage", "-FIVESTAGE"]
    for i in range(14):
        prog = G.soup_program(rng, rng.randint(3, 14), aligned=True, ecall=False, jalr=False, pool=[1, 2, 3, 5], mem_w=0.0)
        prog = [{"m": "addi", "rd": r, "rs1": 0, "imm": rng.choice([1, 2, 3, 15, -1])} for r in (1, 2, 3)] + prog
        case = {"kind": "cli", "prog": prog, "regs": {}, "mem": {}, "hz": hz, "options": spellings[i % len(spellings)]}
        guarded(run_case, prop, case, res)


def run_cli_case(case, res):
    import contextlib, io, os, re, shutil, tempfile, warnings

    try:
        from prompt_toolkit.application import create_app_session
        from prompt_toolkit.input import create_pipe_input
        from prompt_toolkit.output import DummyOutput

        with warnings.catch_warnings():
            warnings.simplefilter("ignore")
            from architecture_simulator.cli import cli
    except Exception:
        return  # no command line front end in this tree / environment: nothing to observe
    from .icache import asm_text

    hz, prog = case["hz"], case["prog"]
    VAL = "C02" if hz else "C08"
    TIM = "C07" if hz else "C08"
    ref = TimedRef({4 * j: d_ for j, d_ in enumerate(prog)}, {}, {}, interlock=hz)
    ref.run(max_instr=300)
    if ref.timeout or ref.fault:
        return
    d = tempfile.mkdtemp(prefix="vpcli-")
    try:
        path = os.path.join(d, "prog.s")
        with open(path, "w") as f:
            f.write(asm_text(prog) + "\n")
        out = io.StringIO()
        with create_pipe_input() as pin:
            pin.send_text("load %s %s -run\nexit\n" % (path, case["options"]))
            with create_app_session(input=pin, output=DummyOutput()):
                with contextlib.redirect_stdout(out):
                    cli.main()
    finally:
        shutil.rmtree(d, ignore_errors=True)
    text = out.getvalue()
    regs = {int(a): int(b) & M32 for a, b in re.findall(r"Register\s+(\d+):\s+(-?\d+)", text)}
    cyc = re.findall(r"cycles:\s+(\d+)", text)
    ins = re.findall(r"instructions:\s+(\d+)", text)
    if len(regs) != 32 or not cyc or not ins:
        res.count("cli_sessions_unreadable")
        return
    res.count("cli_sessions_compared")
    res.evaluations += 1
    want = ref.final_regs()
    bad = [(r, hex(regs[r]), hex(want[r])) for r in range(32) if regs[r] != want[r]]
    if bad or int(ins[-1]) != len(ref.retire):
        res.violation(VAL, "cli-run", "command line front end, 'load <file> %s -run': registers (reg, printed, %s reference) %s, instructions printed %s, reference %d" % (case["options"], "interlock-free" if not hz else "timed", bad[:4], ins[-1], len(ref.retire)), case)
        return
    if int(cyc[-1]) != ref.cycles:
        res.violation(TIM, "cli-run", "command line front end, 'load <file> %s -run': %s cycles printed, documented schedule %d" % (case["options"], cyc[-1], ref.cycles), case)


def long_case(hz, iters=9000):
    body = [{"m": "lw", "rd": 3, "rs1": 31, "imm": 0}, {"m": "lw", "rd": 4, "rs1": 31, "imm": 8}, {"m": "add", "rd": 3, "rs1": 3, "rs2": 4}, {"m": "sw", "rs1": 31, "rs2": 3, "imm": 0},
            {"m": "lw", "rd": 5, "rs1": 31, "imm": 16}, {"m": "sw", "rs1": 31, "rs2": 5, "imm": 24}, {"m": "lw", "rd": 6, "rs1": 31, "imm": 32}, {"m": "sw", "rs1": 31, "rs2": 1, "imm": 8},
            {"m": "lw", "rd": 7, "rs1": 31, "imm": 24}, {"m": "beq", "rs1": 0, "rs2": 7, "imm": 8}, dict(NOP), {"m": "addi", "rd": 1, "rs1": 1, "imm": 1}]
    prog = [{"m": "lui", "rd": 2, "imm": iters >> 12}, dict(NOP), dict(NOP), {"m": "addi", "rd": 2, "rs1": 2, "imm": iters & 0x7FF}, dict(NOP), dict(NOP)] + body + [{"m": "bne", "rs1": 1, "rs2": 2, "imm": -4 * len(body)}, {"m": "addi", "rd": 17, "rs1": 0, "imm": 93}, {"m": "addi", "rd": 10, "rs1": 1, "imm": 0}, {"m": "ecall"}]
    return {"kind": "pipe", "prog": prog, "regs": {"31": 0x4000}, "mem": {str(0x4000 + 8): 1, str(0x4000 + 16): 7}, "hz": hz, "max_instr": 160000,
            "dcache": {"ib": 1, "bb": 1, "assoc": 2, "policy": "lru", "wt": False, "pen": 1}, "icache": {"ib": 1, "bb": 1, "assoc": 1, "policy": "lru", "pen": 0}}


def directed_cases(hz):
    D = []

    def add(prog, regs=None, mem=None, **kw):
        c = {"kind": "pipe", "prog": prog, "regs": regs or {}, "mem": mem or {}, "hz": hz, "max_instr": 120}
        c.update(kw)
        D.append(c)

    # stall cancelled by a flush: consumer right behind a taken branch's shadow
    add([{"m": "addi", "rd": 1, "rs1": 0, "imm": 1}, {"m": "beq", "rs1": 0, "rs2": 0, "imm": 12}, {"m": "addi", "rd": 2, "rs1": 0, "imm": 5}, {"m": "add", "rd": 3, "rs1": 2, "rs2": 2}, {"m": "add", "rd": 4, "rs1": 1, "rs2": 1}])
    # ecall draining behind a load
    add([{"m": "lw", "rd": 10, "rs1": 31, "imm": 0}, {"m": "ecall"}, {"m": "addi", "rd": 5, "rs1": 10, "imm": 1}], {"17": 1, "31": 0x4000}, {"16384": 42})
    # hazard on rs2 only
    add([{"m": "addi", "rd": 2, "rs1": 0, "imm": 77}, {"m": "sw", "rs1": 31, "rs2": 2, "imm": 4}, {"m": "lw", "rd": 3, "rs1": 31, "imm": 4}], {"31": 0x4000})
    # distance exactly 2 and exactly 3
    add([{"m": "addi", "rd": 1, "rs1": 0, "imm": 9}, dict(NOP), {"m": "add", "rd": 2, "rs1": 1, "rs2": 1}])
    add([{"m": "addi", "rd": 1, "rs1": 0, "imm": 9}, dict(NOP), dict(NOP), {"m": "add", "rd": 2, "rs1": 1, "rs2": 1}])
    # wrapping JALR
    add([{"m": "jalr", "rd": 1, "rs1": 5, "imm": 5}, {"m": "addi", "rd": 2, "rs1": 0, "imm": 7}, {"m": "addi", "rd": 3, "rs1": 0, "imm": 9}], {"5": M32})
    # exit ecall with younger instructions in flight, wrong-path store / print
    add([{"m": "addi", "rd": 17, "rs1": 0, "imm": 93}, {"m": "addi", "rd": 10, "rs1": 0, "imm": 3}, {"m": "ecall"}, {"m": "sw", "rs1": 31, "rs2": 10, "imm": 0}, {"m": "ecall"}, {"m": "addi", "rd": 6, "rs1": 0, "imm": 1}], {"31": 0x4000})
    add([{"m": "beq", "rs1": 0, "rs2": 0, "imm": 16}, {"m": "ecall"}, {"m": "sw", "rs1": 31, "rs2": 31, "imm": 0}, {"m": "addi", "rd": 1, "rs1": 0, "imm": 1}, {"m": "addi", "rd": 2, "rs1": 0, "imm": 2}], {"17": 1, "10": 5, "31": 0x4000})
    # faults: illegal data address behind a producer, invalid ecall code
    add([{"m": "addi", "rd": 1, "rs1": 0, "imm": 16}, {"m": "lw", "rd": 2, "rs1": 1, "imm": 0}, {"m": "addi", "rd": 3, "rs1": 0, "imm": 1}])
    add([{"m": "addi", "rd": 3, "rs1": 0, "imm": 1}, {"m": "addi", "rd": 17, "rs1": 0, "imm": 7}, {"m": "ecall"}, {"m": "addi", "rd": 4, "rs1": 0, "imm": 1}])
    # store then fault
    add([{"m": "sw", "rs1": 31, "rs2": 31, "imm": 0}, {"m": "sw", "rs1": 0, "rs2": 31, "imm": 0}, {"m": "sw", "rs1": 31, "rs2": 31, "imm": 4}], {"31": 0x4000})
    # loop with call
    add(
        [
            {"m": "addi", "rd": 5, "rs1": 0, "imm": 3},
            {"m": "jal", "rd": 1, "imm": 16},
            {"m": "addi", "rd": 5, "rs1": 5, "imm": -1},
            {"m": "bne", "rs1": 5, "rs2": 0, "imm": -8},
            {"m": "jal", "rd": 0, "imm": 12},
            {"m": "add", "rd": 6, "rs1": 6, "rs2": 5},
            {"m": "jalr", "rd": 0, "rs1": 1, "imm": 0},
        ]
    )
    # two ecalls back to back, ecall argument written 1,2,3 slots earlier
    for k in range(4):
        add([{"m": "addi", "rd": 10, "rs1": 0, "imm": 65 + k}] + [dict(NOP)] * k + [{"m": "ecall"}, {"m": "ecall"}], {"17": 11})
    add([])
    return D


def run_shard(spec, res):
    prop = spec["prop"]
    rng = rng_for(prop, spec["tier"], spec["seed"], spec["kind"], spec["shard"])
    hz = spec["hz"]
    kind = spec["kind"]
    if kind == "directed":
        for case in directed_cases(hz):
            guarded(run_case, prop, case, res)
            res.evaluations += 1
            res.sample(case, 2)
        return
    if kind == "cli":
        run_cli_shard(prop, hz, rng, res)
        return
    if kind == "long":
        # (quick: cycles and instructions pass 2^16; thorough: cache accesses and hits as well)
        case = long_case(hz, 6000 if spec["tier"] == "quick" else 9000)
        guarded(run_case, prop, case, res)
        res.evaluations += 1
        res.count("long_runs")
        return
    if kind == "reload":
        for it in range(spec["n"]):
            prog, regs = pad_source(rng)
            case = {"kind": "reload", "prog": prog, "regs": regs, "mem": G.init_mem(rng), "k": rng.randint(1, 6)}
            guarded(run_reload_case, prop, case, res)
            res.evaluations += 1
            if it < 1:
                res.sample(case, 2)
        return
    if kind == "asmdata":
        from . import cache as _cache

        for it in range(spec["n"]):
            case = _cache.gen_asmprog_case(rng)
            case["kind"] = "asmdata"
            case["icache"] = rand_cache(rng) if rng.random() < 0.5 else None
            if case["dcache"]["pen"] == 0:
                case["dcache"]["pen"] = rng.choice([1, 3, 7])
            guarded(run_asmdata_case, prop, case, res)
            res.evaluations += 1
            if it < 1:
                res.sample(case, 2)
        return
    if kind == "enum":
        k = 0
        for n in range(1, spec["nmax"] + 1):
            for combo in itertools.product(range(14), repeat=n):
                k += 1
                if k % spec["of"] != spec["shard"]:
                    continue
                prog = [dict(alphabet(i, n)[s]) for i, s in enumerate(combo)]
                for rf in REGFILES:
                    case = {"kind": "pipe", "prog": prog, "regs": rf, "mem": MEM0, "hz": hz, "max_instr": 40}
                    guarded(run_case, prop, case, res)
                    res.evaluations += 1
        res.exhaustive = True
        res.extra["enumeration"] = "all sequences of length 1..%d over the 14-symbol alphabet x 3 register files" % spec["nmax"]
        return
    for it in range(spec["n"]):
        if kind == "random":
            if rng.random() < 0.65:
                prog = G.soup_program(rng, rng.randint(1, 18 if rng.random() < 0.8 else 60), aligned=rng.random() < 0.7)
                regs = G.soup_regs(rng)
            else:
                prog, regs = G.structured_program(rng, size=rng.randint(4, 40), aligned=True, faults=rng.random() < 0.25)
            case = {"kind": "pipe", "prog": prog, "regs": regs, "mem": G.init_mem(rng), "hz": hz, "max_instr": 250}
        elif kind == "instr5":
            ic = G.instr_case(rng, G.ALL[(it + spec["shard"]) % len(G.ALL)] if it % 2 == 0 else None)
            k = rng.choice([0, 0, 1, 2, 3])
            pre = [dict(NOP) for _ in range(k)] if rng.random() < 0.5 else [G._alu(rng, [1, 2, 5, 10]) for _ in range(k)]
            post = [G._alu(rng, [1, 2, 5, 10, 17]) for _ in range(rng.choice([0, 1, 2]))]
            case = {"kind": "pipe", "prog": pre + [ic["instr"]] + post, "regs": ic["regs"], "mem": ic["mem"], "hz": hz, "max_instr": 20}
        elif kind == "straight":
            n = rng.randint(1, 40)
            case = {"kind": "pipe", "prog": G.straightline_independent(rng, n), "regs": {}, "mem": {}, "hz": True, "max_instr": 100, "straight": True}
        elif kind == "cached":
            prog, regs = G.structured_program(rng, size=rng.randint(4, 30), aligned=True) if rng.random() < 0.6 else (G.soup_program(rng, rng.randint(2, 20), aligned=True, mem_w=0.3), G.soup_regs(rng))
            case = {"kind": "pipe", "prog": prog, "regs": regs, "mem": G.init_mem(rng), "hz": hz, "max_instr": 200, "dcache": rand_cache(rng), "icache": rand_cache(rng) if rng.random() < 0.7 else None}
            if rng.random() < 0.2:
                case["dcache"] = None
        elif kind == "padded":
            prog, regs = pad_source(rng)
            case = {"kind": "pipe", "prog": G.pad_with_nops(prog, 2), "regs": regs, "mem": G.init_mem(rng), "hz": False, "max_instr": 400, "padded": True}
            if rng.random() < 0.3:
                case["dcache"] = rand_cache(rng) if rng.random() < 0.7 else None
                case["icache"] = rand_cache(rng)
        if rng.random() < 0.15:
            case["neighbours"] = True
        guarded(run_case, prop, case, res)
        res.evaluations += 1
        if it < 1:
            res.sample(case, 4)


def run_reload_case(prop, case, res):
    """C08, metamorphic: a hazard-off simulation that has already run a program (k nops: the pipeline is drained, the
    program counter stands behind them) gets a second program through load_program whose first k slots are nops
    again and whose body follows.  Execution continues at the body with an empty pipeline, exactly as in a FRESH
    hazard-off simulation after its k leading nops: registers, memory, output and exit code of
    the body must be the same - the interlock-free behaviour does not wear off with a reload."""
    k = case["k"]
    nops = "\n".join(["addi x0, x0, 0"] * k)
    body = "\n".join(instr_text(d) for d in case["prog"])
    outs = []
    for reloaded in (False, True):
        sim = make_riscv("five", hz=False)
        try:
            if reloaded:
                sim.load_program(nops)
                n = 0
                while not sim.is_done() and n < k + 10:
                    sim.step()
                    n += 1
            sim.load_program(nops + "\n" + body)
            set_regs(sim, case["regs"])
            preload_mem(sim, case["mem"])
            st0 = sim.state.performance_metrics.stalls
            n = 0
            while not sim.is_done() and n < 600:
                sim.step()
                n += 1
            if not sim.is_done():
                return
        except Exception as e:
            outs.append(("EXC", type(e).__name__, getattr(e, "address", None)))
            continue
        # (the stall counter is not compared: an ecall near the start waits for the leading nops in the fresh run only)
        outs.append((real_regs(sim), sim.state.output, sim.state.exit_code, mem_image(sim)))
    res.count("reloaded_hazard_off_runs")
    if outs[0] != outs[1]:
        names = ["registers", "output", "exit code", "memory"]
        what = [names[i] for i in range(4) if outs[0][i] != outs[1][i]] if outs[0][0] != "EXC" and outs[1][0] != "EXC" else [outs[0][:3], outs[1][:3]]
        res.violation("C08", "reload-changes-behaviour", "hazard detection off: the same body behaves differently in a simulation that ran %d nops before the program was loaded than in a fresh one: %s" % (k, what), case)
        return
    res.nontrivial(h64(case))


def run_asmdata_case(prop, case, res):
    """C07, total cycle count of a program as the user loads it (assembler text with a data segment, caches with miss
    penalties): the counter is 0 before the first step, every step adds 1 + penalty x the counted misses of that
    step, and the total is steps + penalty x counted misses (data and instruction cache counters)."""
    from ..gen import asm_rv as A

    text = A.Renderer(case["render"]).program({"data": case["data"], "stmts": case["stmts"], "labels": {}}, data_first=case["data_first"])
    dc, ic = case["dcache"], case.get("icache")
    sim = make_riscv("five", hz=True, dcache=dc, icache=ic)
    try:
        sim.load_program(text)
    except Exception:
        return  # (a well-formed text that does not load is C04's finding)
    pm = sim.state.performance_metrics

    def misses():
        t = 0
        for st, pen in ((sim.state.memory.get_cache_stats(), dc["pen"]), (sim.state.instruction_memory.get_cache_stats(), ic["pen"] if ic else 0)):
            if st:
                t += pen * (int(st["accesses"]) - int(st["hits"]))
        return t

    res.count("asm_loaded_cycle_totals")
    if pm.cycles != 0:
        res.violation("C07", "cycle-total", "the cycle counter is %d before the first step (program with a data segment loaded through the assembler, data cache %r)" % (pm.cycles, dc), case)
        return
    k = 0
    try:
        while not sim.is_done() and k < 700:
            before = pm.cycles, misses()
            sim.step()
            k += 1
            if pm.cycles - before[0] != 1 + misses() - before[1]:
                res.violation("C07", "cycle-increment", "step %d advanced the cycle counter by %d, expected 1 + %d (miss penalties of this step)" % (k, pm.cycles - before[0], misses() - before[1]), case)
                return
    except Exception:
        return
    if pm.cycles != k + misses():
        res.violation("C07", "cycle-total", "after %d steps the cycle counter is %d, expected steps + miss penalties = %d" % (k, pm.cycles, k + misses()), case)
        return
    if misses():
        res.nontrivial(h64(case))


def pad_source(rng):
    """programs whose transfers are all pc-relative (padding rescales displacements) or JALR via link"""
    if rng.random() < 0.5:
        prog = G.soup_program(rng, rng.randint(1, 16), aligned=True, jalr=False)
        return prog, G.soup_regs(rng)
    # structured programs use 'jal x6 / jalr x0, x6, 0' (link based) -> padding keeps them valid
    return G.structured_program(rng, size=rng.randint(3, 20), aligned=True)


def rand_cache(rng):
    policy = rng.choice(["lru", "plru"])
    return {"ib": rng.choice([0, 0, 1, 2]), "bb": rng.choice([0, 1, 2]), "assoc": rng.choice([1, 2, 4] if policy == "plru" else [1, 2, 3, 4]), "policy": policy, "wt": rng.random() < 0.5, "pen": rng.choice([0, 1, 3, 5, 20])}


# -------------------------------------------------------------------------------------------------


LAST = {"tag": None, "kind": None}  # tag / kind of the violation that made the last run_five() return None
TIMING_KINDS = ("cycle-increment", "retire-cycle", "cycle-total", "n-plus-4")


def last_was_value_violation():
    """did the last run_five() stop because a VALUE/ORDER monitor fired (not a timing/penalty one)?"""
    return LAST["tag"] in ("C02", "C08") and LAST["kind"] not in TIMING_KINDS


class _Tagging:
    """res proxy that remembers the tag of the last violation recorded through it"""

    def __init__(self, res):
        self._res = res

    def violation(self, prop, kind, msg, case):
        LAST["tag"], LAST["kind"] = prop, kind
        self._res.violation(prop, kind, msg, case)

    def __getattr__(self, name):
        return getattr(self._res, name)


class StoreLog:
    """wrappers on the memory system's write_* (instance level): (width, addr, value) per accepted call"""

    def __init__(self, mem):
        self.log = []
        self.mem = mem
        for name, w in (("write_byte", 1), ("write_halfword", 2), ("write_word", 4)):
            orig = getattr(mem, name)

            def wrap(address, value, *a, _orig=orig, _w=w, **kw):
                # every write an executing instruction performs is an architectural store, whatever the
                # cache-bypass flag says (the log is attached after the initial preload)
                self.log.append((address & M32, _w, int(value) & ((1 << (8 * _w)) - 1)))
                return _orig(address, value, *a, **kw)

            setattr(mem, name, wrap)


def _stats(sim):
    d = sim.state.memory.get_cache_stats()
    i = sim.state.instruction_memory.get_cache_stats()
    f = lambda s: None if s is None else (int(s["hits"]), int(s["accesses"]))
    return f(d), f(i)


def run_five(case, res, prop, ref, on_sim=None):
    """runs the real five-stage pipeline under the monitors; returns summary dict or None after a violation"""
    from architecture_simulator.simulation.runtime_errors import InstructionExecutionException

    LAST["tag"] = LAST["kind"] = None
    res = _Tagging(res)
    hz = case["hz"]
    VAL = prop if prop in ("C02", "C08") else ("C02" if hz else "C08")  # tag for value/order clauses
    TIM = "C07" if hz else "C08"  # tag for timing clauses
    neighbours = []
    if case.get("neighbours"):
        neighbours.append(make_riscv("five", hz=not hz))  # other simulations live in the same process ...
    sim = make_riscv("five", hz=hz, dcache=case.get("dcache"), icache=case.get("icache"))
    if case.get("neighbours"):
        neighbours.append(make_riscv("five", hz=not hz))  # ... built before and after the one under test
        neighbours.append(make_riscv("single"))
        res.count("runs_with_neighbour_simulations")
    install_program(sim, case["prog"])
    set_regs(sim, case["regs"])
    preload_mem(sim, case["mem"])
    slog = StoreLog(sim.state.memory)
    if on_sim:
        on_sim(sim)
    pen_d = (case.get("dcache") or {}).get("pen", 0)
    pen_i = (case.get("icache") or {}).get("pen", 0)
    # pending register writes of the reference in write-back order
    pend = sorted((wb, k, r, v) for r in range(32) for k, (wb, v) in enumerate(ref.writes[r]))
    pend.sort(key=lambda x: x[0])
    pi = 0
    cur = list(ref.init)
    ghist = [[ref.init[r]] + [v for (_, v) in ref.writes[r]] for r in range(32)]
    gptr = [0] * 32
    ref_stores = [(a, n, v) for (_, a, n, v) in ref.stores]
    ref_out_prefixes = {""}
    acc = ""
    for (_, s) in ref.outs:
        acc += s
        ref_out_prefixes.add(acc)
    aligned = True
    ri = 0
    t = 0
    limit = (ref.cycles if not ref.fault else ref.fault[2]) + 40
    pm = sim.state.performance_metrics
    prev_cycles = pm.cycles
    prev_stats = _stats(sim)
    total_pen = 0
    rfault = None
    decode_stall_seen = False
    slog_ok = 0
    while t < limit:
        if sim.is_done():
            break
        if ref.timeout and t >= ref.cycles - 2:
            break  # beyond this cycle instructions past the reference's bound may already act (EX/MEM)
        t += 1
        try:
            ret = sim.step()
        except InstructionExecutionException as e:
            rfault = e
            break
        except Exception as e:
            res.violation("C15", "untyped-runtime-error", "five-stage step raised %r" % (e,), case)
            res.violation(VAL, "unexpected-exception", "five-stage step %d raised %r" % (t, e), case)
            return None
        res.count("steps_compared")
        st = getattr(sim.state.pipeline, "stalled", None)
        if st is not None and st[0] == 1:
            decode_stall_seen = True
        # ---- cycle counter: one per step plus the penalties of the misses observed in this step
        stats = _stats(sim)
        pen = 0
        if stats[0] is not None:
            pen += pen_d * ((stats[0][1] - stats[0][0]) - (prev_stats[0][1] - prev_stats[0][0]))
        if stats[1] is not None:
            pen += pen_i * ((stats[1][1] - stats[1][0]) - (prev_stats[1][1] - prev_stats[1][0]))
        if pen:
            res.count("penalty_steps_with_miss")
        if pm.cycles - prev_cycles != 1 + pen:
            res.violation("C07" if hz else "C08", "cycle-increment", "step %d advanced the cycle counter by %d, expected 1 + %d (miss penalties of this step)" % (t, pm.cycles - prev_cycles, pen), case)
            return None
        total_pen += pen
        prev_cycles, prev_stats = pm.cycles, stats
        # ---- retirement
        ev = sim.state.pipeline.pipeline_registers[4].address_of_instruction
        if ev is not None:
            res.count("retire_events")
            if ri >= len(ref.retire):
                if ref.timeout:
                    break
                res.violation(VAL, "extra-retirement", "step %d retired address %r but the golden trace has only %d instructions" % (t, ev, len(ref.retire)), case)
                return None
            wb, pc = ref.retire[ri]
            if ev != pc:
                res.violation(VAL, "retire-order", "retirement #%d: real address %r, golden %r" % (ri, ev, pc), case)
                return None
            if wb != t and aligned:
                res.violation(TIM, "retire-cycle", "instruction #%d at %d (%s) retired in step %d, documented schedule says %d" % (ri, pc, instr_text(case["prog"][pc // 4]), t, wb), case)
                aligned = False
                if prop in ("C07", "C08"):
                    return None
            ri += 1
        elif aligned and ri < len(ref.retire) and ref.retire[ri][0] == t:
            res.violation(TIM, "retire-cycle", "no retirement in step %d, documented schedule retires #%d (address %d) there" % (t, ri, ref.retire[ri][1]), case)
            aligned = False
            if prop in ("C07", "C08"):
                return None
        # ---- register file after this step
        if hz:
            # C02 does not claim WHEN a register changes (that is C07) nor that a write which nothing can observe
            # becomes visible: each register's observed history must be a monotone walk through its golden value
            # history (it may lag or skip, never go back, never hold a value the golden trace does not contain -
            # which is what a wrong-path or re-executed instruction produces).  Final equality is checked at the end.
            rr = real_regs(sim)
            for r in range(1, 32):
                x = rr[r]
                h = ghist[r]
                if x != h[gptr[r]]:
                    q = gptr[r] + 1
                    while q < len(h) and h[q] != x:
                        q += 1
                    if q >= len(h):
                        res.violation(VAL, "register-file-at-step", "after step %d x%d = %#x: not a value the golden trace gives this register from here on (golden history %s, position %d)" % (t, r, x, [hex(v) for v in h[max(0, gptr[r] - 1) : gptr[r] + 4]], gptr[r]), case)
                        return None
                    gptr[r] = q
            if rr[0] != 0:
                res.violation(VAL, "register-file-at-step", "x0 = %#x after step %d" % (rr[0], t), case)
                return None
        elif aligned:
            # hazard detection off (C08): which write an instruction observes IS the property - exact per cycle
            while pi < len(pend) and pend[pi][0] <= t:
                cur[pend[pi][2]] = pend[pi][3]
                pi += 1
            rr = real_regs(sim)
            if rr != cur:
                diff = [(i, hex(rr[i]), hex(cur[i])) for i in range(32) if rr[i] != cur[i]]
                res.violation(VAL, "register-file-at-step", "after step %d registers (reg, real, reference) differ: %s" % (t, diff[:4]), case)
                return None
        # ---- output and stores: in golden order, exactly once
        o = sim.state.output
        if o not in ref_out_prefixes and not (ref.timeout and o.startswith(ref.out)):
            # (if the golden run stopped at its instruction bound, a pipeline that is merely FASTER than the
            # documented schedule - a C07 matter - may already be past it: then the golden output is a prefix of the real one)
            res.violation(VAL, "output-log", "after step %d output %r is not a prefix of the golden output events %r" % (t, o[-60:], ref.out[-60:]), case)
            return None
        # (incremental: only the entries logged since the last step are compared)
        nl = len(slog.log)
        if nl > slog_ok:
            upto = min(nl, len(ref_stores))
            if slog.log[slog_ok:upto] != ref_stores[slog_ok:upto]:
                res.violation(VAL, "store-log", "after step %d store log %s is not a prefix of the golden store events %s" % (t, slog.log[-3:], ref_stores[max(0, nl - 3) : nl]), case)
                return None
            if nl > len(ref_stores) and not ref.timeout:
                res.violation(VAL, "store-log", "after step %d store log %s is not a prefix of the golden store events %s" % (t, slog.log[-3:], ref_stores[max(0, nl - 3) : nl]), case)
                return None
            slog_ok = upto
        if ret is not (not sim.is_done()):
            res.violation("C13", "step-return", "five-stage step() returned %r but is_done()=%r" % (ret, sim.is_done()), case)
    res.count("stores_logged", len(slog.log))
    res.count("outputs_logged", len(ref.outs))
    return {"sim": sim, "t": t, "rfault": rfault, "aligned": aligned, "ri": ri, "slog": slog, "total_pen": total_pen, "decode_stall_seen": decode_stall_seen, "VAL": VAL, "TIM": TIM}


def mem_image(sim, extra_addrs=()):
    """logical memory (non-zero bytes) read through the memory system (uncounted)"""
    m = sim.state.memory
    back = getattr(m, "memory", m)
    addrs = set(back.memory_file.keys()) | set(extra_addrs)
    cr = m.cache_repr() if hasattr(m, "cache_repr") and m.get_cache_stats() is not None else None
    if cr is not None:
        for s in cr.sets:
            for b in s.blocks:
                for (a, _v) in b.address_value_list:
                    if a:
                        base = int(a, 16)
                        addrs.update(range(base, base + 4))
    out = {}
    for a in addrs:
        try:
            v = int(m.read_byte(a, False)) if cr is not None else int(back.memory_file.get(a, 0))
        except Exception:
            continue  # an address taken from a (possibly wrong) cache table that the memory rejects: not a value
        
        if v:
            out[a] = v
    return out


def run_case(prop, case, res):
    if case.get("kind") == "cli":
        return run_cli_case(case, res)
    prog = {4 * i: d for i, d in enumerate(case["prog"])}
    hz = case["hz"]
    ref = TimedRef(prog, case["regs"], case["mem"], interlock=hz)
    ref.run(max_instr=case.get("max_instr", 200))
    seq = None
    if hz or case.get("padded"):
        seq = SeqRef(prog, case["regs"], case["mem"])
        seq.keep_trace = False
        sres = seq.run(case.get("max_instr", 200))
        # self-check of the oracle: with interlock on the timed reference must be sequentially consistent
        ok = (seq.x == ref.final_regs() and seq.out == ref.out and seq.exit == ref.exit and seq.mem.nonzero() == ref.mem.nonzero() and seq.n == len(ref.retire) + (1 if ref.fault and False else 0))
        if hz and not ok:
            res.inconclusive.append("oracle self-check failed (timed vs sequential reference) on %r" % (case["prog"],))
            return
    if case.get("dcache") and ref.crossing and not hz:
        # a stale pointer of the interlock-free pipeline happens to be unaligned: a data cache rejects the word-crossing
        # access by design (C03), the reference has no cache - not this property's matter
        res.count("skipped_stale_unaligned_pointer_with_dcache")
        return
    res.count("ref_id_stalls", ref.id_stalls)
    res.count("ref_flushes", ref.flushes)
    res.count("ref_ecall_drains", ref.ex_stalls)
    if ref.id_stalls and ref.flushes:
        res.count("stall_and_flush_in_one_program")
    if ref.stale_reads:
        res.count("stale_reads_observed", ref.stale_reads)
    if ref.timeout:
        res.count("ref_bound_hit")
    out = run_five(case, res, prop, ref)
    if out is None:
        return
    sim, t, rfault = out["sim"], out["t"], out["rfault"]
    VAL, TIM = out["VAL"], out["TIM"]
    n = len(case["prog"])
    nontrivial = bool(ref.id_stalls or ref.flushes or ref.ex_stalls or ref.fault)
    # ------------------------------------------------------------------ faults
    if ref.fault or rfault:
        res.count("faults_compared")
        if not (ref.fault and rfault):
            res.violation(VAL, "fault-one-sided", "reference fault=%r real fault=%r (after %d steps)" % (ref.fault, rfault, t), case)
            return
        bad = []
        if rfault.address != ref.fault[0]:
            bad.append("faulting address real=%r reference=%r" % (rfault.address, ref.fault[0]))
        want_repr = None
        if real_regs(sim) != ref.final_regs():
            rr, fr = real_regs(sim), ref.final_regs()
            bad.append("registers at the fault differ: %s" % [(i, hex(rr[i]), hex(fr[i])) for i in range(32) if rr[i] != fr[i]][:4])
        if sim.state.output != ref.out:
            bad.append("output at the fault real=%r reference=%r" % (sim.state.output[-40:], ref.out[-40:]))
        d = prog[ref.fault[0]]
        from ..refmodels.rv32 import footprint, srcs

        # memory outside the faulting footprint
        img = mem_image(sim)
        rimg = ref.mem.nonzero()
        diff = [a for a in set(img) | set(rimg) if img.get(a, 0) != rimg.get(a, 0)]
        if diff:
            fpz = set()
            if d["m"] in G.ST:
                # footprint of the faulting store: any address whose reference byte may or may not be written
                sched = ref.sched[-1]
                ops = tuple(ref.read(s, sched["IDl"]) for s in srcs(d))
                fpz = set(footprint(d, ops))
            diff = [a for a in diff if a not in fpz]
            if diff:
                bad.append("memory at the fault differs at %s" % [hex(a) for a in sorted(diff)[:4]])
        if bad:
            res.violation(VAL, "fault-state", "; ".join(bad), case)
            return
        if hz and prop == "C02":
            _single_cycle_fault(case, prog, ref, sim, res)
        if nontrivial:
            res.nontrivial(h64([case["prog"], case["regs"], case["mem"], hz]))
        return
    # ------------------------------------------------------------------ termination and totals
    if ref.timeout:
        if sim.is_done():
            res.violation(VAL, "early-termination", "real pipeline is done after %d steps but the golden run is still executing" % t, case)
        return
    if not sim.is_done():
        res.violation(VAL, "no-termination", "golden run finished in %d cycles, real pipeline not done after %d steps" % (ref.cycles, t), case)
        return
    if out["ri"] != len(ref.retire):
        res.violation(VAL, "retire-count", "real retired %d instructions, golden %d" % (out["ri"], len(ref.retire)), case)
        return
    pm = sim.state.performance_metrics
    res.count("cycle_totals_compared")
    if t != ref.cycles or pm.cycles != ref.cycles + out["total_pen"]:
        res.violation(TIM, "cycle-total", "real: %d steps, cycle counter %d; documented schedule: %d cycles (+%d miss penalty)" % (t, pm.cycles, ref.cycles, out["total_pen"]), case)
        if prop in ("C07", "C08"):
            return
    if case.get("straight"):
        res.count("straightline_n_plus_4")
        if n and t != n + 4:
            res.violation("C07", "n-plus-4", "%d independent instructions took %d cycles, expected %d" % (n, t, n + 4), case)
    # ------------------------------------------------------------------ final state vs the (timed) reference
    bad = []
    if real_regs(sim) != ref.final_regs():
        rr, fr = real_regs(sim), ref.final_regs()
        bad.append("registers: %s" % [(i, hex(rr[i]), hex(fr[i])) for i in range(32) if rr[i] != fr[i]][:4])
    if sim.state.output != ref.out:
        bad.append("output real=%r reference=%r" % (sim.state.output[-40:], ref.out[-40:]))
    if sim.state.exit_code != ref.exit:
        bad.append("exit code real=%r reference=%r" % (sim.state.exit_code, ref.exit))
    if out["slog"].log != [(a, w, v) for (_, a, w, v) in ref.stores]:
        bad.append("store log differs (length real=%d golden=%d)" % (len(out["slog"].log), len(ref.stores)))
    img = mem_image(sim)
    if img != ref.mem.nonzero():
        rimg = ref.mem.nonzero()
        diff = sorted(a for a in set(img) | set(rimg) if img.get(a, 0) != rimg.get(a, 0))
        bad.append("memory differs at %s" % [(hex(a), img.get(a, 0), rimg.get(a, 0)) for a in diff[:4]])
    if (pm.instruction_count, pm.branch_count, pm.procedure_count) != (len(ref.retire), ref.branches, ref.calls):
        bad.append("counters (instructions, branches, calls) real=%r golden=%r" % ((pm.instruction_count, pm.branch_count, pm.procedure_count), (len(ref.retire), ref.branches, ref.calls)))
    if bad:
        res.violation(VAL, "final-state", "; ".join(bad), case)
        return
    # ------------------------------------------------------------------ C08 specific
    if not hz:
        if out["decode_stall_seen"]:
            res.violation("C08", "decode-stall", "pipeline.stalled named the decode stage although hazard detection is off", case)
        ambiguous = any(d["m"] in G.BRM and d["imm"] == 4 for d in case["prog"])
        if not ambiguous:
            res.count("stall_counter_compared")
            want = ref.ex_stalls + ref.wrong_path_ecall_stalls
            if pm.stalls != want:
                res.violation("C08", "stall-counter", "stalls counter %d, interlock-free reference predicts %d (ecall drains %d + wrong-path ecall waits %d); a decode-stage stall would add to it" % (pm.stalls, want, ref.ex_stalls, ref.wrong_path_ecall_stalls), case)
        if case.get("padded"):
            res.count("padded_programs")
            if not (seq.x == real_regs(sim) and seq.out == sim.state.output and seq.exit == sim.state.exit_code and seq.mem.nonzero() == img):
                res.violation("C08", "padded-program", "nop-padded program differs from sequential semantics with hazard detection off", case)
        nontrivial = bool(ref.stale_reads or ref.flushes or ref.ex_stalls)
    # ------------------------------------------------------------------ three-way: real single-cycle run
    if hz and prop == "C02":
        s1 = make_riscv("single", dcache=case.get("dcache"), icache=case.get("icache"))
        install_program(s1, case["prog"])
        set_regs(s1, case["regs"])
        preload_mem(s1, case["mem"])
        k = 0
        try:
            while not s1.is_done() and k < seq.n + 5:
                s1.step()
                k += 1
        except Exception as e:
            res.violation("C02", "single-cycle-fault", "single-cycle run raised %r where five-stage completed" % (e,), case)
            return
        res.count("three_way_final")
        p1 = s1.state.performance_metrics
        A = (real_regs(s1), s1.state.output, s1.state.exit_code, mem_image(s1), p1.instruction_count, p1.branch_count, p1.procedure_count, bool(s1.is_done()))
        B = (real_regs(sim), sim.state.output, sim.state.exit_code, img, pm.instruction_count, pm.branch_count, pm.procedure_count, True)
        if A != B:
            names = ["registers", "output", "exit code", "memory", "instruction count", "branch count", "call count", "done"]
            res.violation("C02", "modes-differ", "single-cycle vs five-stage differ in: %s" % [names[i] for i in range(8) if A[i] != B[i]], case)
            return
    if prop == "C07":
        nontrivial = (bool(ref.id_stalls or ref.flushes or ref.ex_stalls) and ref.cycles != len(ref.retire) + 4) or out["total_pen"] > 0
    # ------------------------------------------------------------------ the same run with nobody watching
    # Everything above was observed step by step (latches, registers, statistics read after every cycle).  A third of
    # the programs runs once more through run() with no monitor attached and nothing read until it has returned: what
    # it leaves must be what the observed run left (a result that is only right while somebody looks is wrong).
    if (len(case["prog"]) + t) % 3 == 0:
        from ..common import with_alarm, AlarmTimeout

        if (len(case["prog"]) + t) % 6 == 0:
            # the unobserved twin is a simulation wrapped around a CALLER-BUILT five-stage state, the facade's own mode
            # argument left at its default (a public construction path; the state says what the machine is)
            from architecture_simulator.simulation.riscv_simulation import RiscvSimulation
            from architecture_simulator.uarch.riscv.riscv_architectural_state import RiscvArchitecturalState
            from ..common import cache_options

            sb = RiscvSimulation(state=RiscvArchitecturalState(pipeline_mode="".join(list("five_stage_pipeline")), detect_data_hazards=hz, data_cache_options=cache_options(case.get("dcache")), instruction_cache_options=cache_options(case.get("icache"))))
            res.count("unobserved_runs_on_caller_built_state")
        else:
            sb = make_riscv("five", hz=hz, dcache=case.get("dcache"), icache=case.get("icache"), via=getattr(sim, "_vp_via", None))  # built the way the observed one was
        install_program(sb, case["prog"])
        set_regs(sb, case["regs"])
        preload_mem(sb, case["mem"])
        try:
            with_alarm(20, sb.run)
        except AlarmTimeout:
            res.violation(VAL, "unobserved-run-differs", "run() with no monitor attached did not return within 20 s of CPU time; the observed run of the same program finished after %d steps" % t, case)
            return
        except Exception as e:
            res.violation(VAL, "unobserved-run-differs", "run() with no monitor attached raised %r; the observed run of the same program completed" % (e,), case)
            return
        res.count("unobserved_runs_compared")
        pb = sb.state.performance_metrics
        vals_a = (real_regs(sim), sim.state.output, sim.state.exit_code, img, pm.instruction_count, pm.branch_count, pm.procedure_count)
        vals_b = (real_regs(sb), sb.state.output, sb.state.exit_code, mem_image(sb), pb.instruction_count, pb.branch_count, pb.procedure_count)
        if vals_a != vals_b:
            names = ["registers", "output", "exit code", "memory", "instruction count", "branch count", "call count"]
            res.violation(VAL, "unobserved-run-differs", "run() with no monitor attached leaves other %s than the observed step-by-step run" % [names[i] for i in range(7) if vals_a[i] != vals_b[i]], case)
            return
        if (pm.cycles, pm.stalls if not hz else None) != (pb.cycles, pb.stalls if not hz else None):
            res.violation(TIM, "unobserved-run-differs", "run() with no monitor attached: cycle counter %d (stalls %d), observed step-by-step run %d (stalls %d)" % (pb.cycles, pb.stalls, pm.cycles, pm.stalls), case)
            if prop in ("C07", "C08"):
                return
        sa_, sb_ = _stats(sim), _stats(sb)
        if sa_[0] != sb_[0]:
            res.violation("C09", "unobserved-run-differs", "data-cache (hits, accesses) after run() with no monitor attached %r, after the observed run %r" % (sb_[0], sa_[0]), case)
        if sa_[1] != sb_[1]:
            res.violation("C11", "unobserved-run-differs", "instruction-cache (hits, accesses) after run() with no monitor attached %r, after the observed run %r" % (sb_[1], sa_[1]), case)
    if nontrivial:
        res.nontrivial(h64([case["prog"], case["regs"], case["mem"], hz, case.get("dcache"), case.get("icache")]))


def _single_cycle_fault(case, prog, ref, sim5, res):
    """both modes must report the same faulting address with identical registers / output / memory"""
    from architecture_simulator.simulation.runtime_errors import InstructionExecutionException

    s1 = make_riscv("single", dcache=case.get("dcache"), icache=case.get("icache"))
    install_program(s1, case["prog"])
    set_regs(s1, case["regs"])
    preload_mem(s1, case["mem"])
    k = 0
    e1 = None
    try:
        while not s1.is_done() and k < len(ref.retire) + 5:
            s1.step()
            k += 1
    except InstructionExecutionException as e:
        e1 = e
    except Exception as e:
        res.violation("C15", "untyped-runtime-error", "single-cycle step raised %r" % (e,), case)
        return
    res.count("three_way_final")
    if e1 is None:
        res.violation("C02", "fault-modes-differ", "five-stage faulted at %r but single-cycle did not fault" % (ref.fault,), case)
        return
    if e1.address != ref.fault[0] or real_regs(s1) != real_regs(sim5) or s1.state.output != sim5.state.output:
        res.violation("C02", "fault-modes-differ", "fault address single=%r five=%r; registers equal=%r; output equal=%r" % (e1.address, ref.fault[0], real_regs(s1) == real_regs(sim5), s1.state.output == sim5.state.output), case)
