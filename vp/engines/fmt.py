"""Engine `fmt` - C17: displayed values are faithful.

(1) wrapper on get_n_bit_representations checks EVERY call made anywhere during the workloads (R8),
(2) exhaustive n=12 / n=16 incl. negative and over-wide inputs, boundary+random n=32,
(3) tables: a shadow of written byte addresses (wrappers on the backing Memory's public write_*/reset) decides
    which rows the data-memory table must list; values are parsed back and compared with the backing store."""
from ..common import decoy_riscv_touch, decoy_toy_touch, guarded, rng_for, h64, make_riscv, install_program, set_regs, preload_mem, real_regs, M32
from ..refmodels.numfmt import check_repr
from ..gen import progs as G

RULE = {
    "C17": "formatter: every integer in [-2^n, 2^(n+1)) for n = 12 and 16 (exhaustive incl. negative and over-wide inputs), boundary+random for n = 32; tables: after every step of random RISC-V programs (both modes, with and without data cache) and TOY programs "
    "the register table / data-memory table / TOY memory table / TOY register representations are parsed back and compared with the state and with a shadow of written addresses; every formatter call made by the simulator during these runs is checked by a wrapper. "
    "non-trivial = formatter inputs outside [0, 2^n) or with the sign bit set; table checks with >=2 rows and >=1 unaligned or sub-word write; distinct by (value, width) / case hash."
}
ASSUMPTIONS = {"C17": ["R8 parses the strings back (no formatting code shared)", "the shadow of written addresses is maintained from the backing Memory's public write_*/reset calls; bytes of a faulting straddling write are treated as 'either'"]}
REQUIRED = {"C17": ["returned_tables_scribbled", "formatter_exhaustive_12", "formatter_exhaustive_16", "formatter_32", "wrapped_formatter_calls", "register_tables_checked", "memory_tables_checked", "memory_rows_checked", "toy_tables_checked", "toy_register_reprs_checked", "subword_rows", "cached_table_checks", "tables_after_reload_checked", "custom_register_file_cases", "toy_ir_vs_fetched_word"]}


def plan(prop, tier, seed):
    q = tier == "quick"
    return [{"kind": "fmt12", "shard": 0}, {"kind": "fmt16", "shard": 0}, {"kind": "fmt32", "n": 20000 if q else 400000, "shard": 0}] + [{"kind": "rv", "n": 60 if q else 1500, "shard": i} for i in range(8 if q else 16)] + [{"kind": "toy", "n": 120 if q else 2500, "shard": i} for i in range(3 if q else 8)]


class FormatterWatch:
    """class/module level wrapper on get_n_bit_representations (both bindings), restored afterwards"""

    def __init__(self, res):
        import architecture_simulator.util.integer_representations as ir
        import architecture_simulator.uarch.memory.memory as mm

        self.res = res
        self.mods = [(ir, ir.get_n_bit_representations)]
        if hasattr(mm, "get_n_bit_representations"):
            self.mods.append((mm, mm.get_n_bit_representations))
        self.bad = None
        self.calls = 0

    def __enter__(self):
        for mod, orig in self.mods:
            def wrap(number, n, _orig=orig):
                r = _orig(number, n)
                self.calls += 1
                msg = check_repr(r, int(number), n)
                if msg and self.bad is None:
                    self.bad = "get_n_bit_representations(%r, %r) -> %r: %s" % (number, n, r, msg)
                return r
            mod.get_n_bit_representations = wrap
        return self

    def __exit__(self, *a):
        for mod, orig in self.mods:
            mod.get_n_bit_representations = orig
        self.res.count("wrapped_formatter_calls", self.calls)


class WriteShadow:
    """shadow set of written byte addresses of one backing Memory object (instance-level wrappers on its
    public write_* and reset)"""

    def __init__(self, mem):
        self.written = set()
        self.maybe = set()
        for name, w in (("write_byte", 1), ("write_halfword", 2), ("write_word", 4), ("write_doubleword", 8)):
            orig = getattr(mem, name)

            def wrap(address, value, *a, _orig=orig, _w=w, **kw):
                addrs = [(address + k) & M32 for k in range(_w)]
                try:
                    r = _orig(address, value, *a, **kw)
                except Exception:
                    self.maybe.update(addrs)
                    raise
                self.written.update(addrs)
                return r

            setattr(mem, name, wrap)
        oreset = mem.reset

        def reset(_o=oreset):
            self.written.clear()
            self.maybe.clear()
            return _o()

        mem.reset = reset


def other_views(mem, res):
    """the same memory dumped at the other granularities (public views of the Memory class) right before the table is
    asked for: a view at one width must not change what the table of another width shows"""
    for name in ("bytewise_repr", "halfwordwise_repr", "wordwise_repr", "doublewordwise_repr"):
        f = getattr(mem, name, None)
        if f is not None:
            try:
                f()
                res.count("views_at_other_granularity")
            except Exception:
                pass  # not offered for this addressing type


def scribble(obj, res):
    """a caller may do what it likes with a table it was handed (add a header row, drop a line, sort it): the NEXT
    request must show the machine again, not what the caller left in the previous answer"""
    try:
        if isinstance(obj, list):
            obj.reverse()
            obj.insert(0, obj[0] if obj else None)
            if len(obj) > 2:
                del obj[2]
            res.count("returned_tables_scribbled")
        elif isinstance(obj, dict):
            obj.clear()
            res.count("returned_tables_scribbled")
    except Exception:
        pass


def check_register_table(sim, res, case):
    decoy_riscv_touch()
    tab = sim.get_register_entries()
    vals = real_regs(sim)
    res.count("register_tables_checked")
    if len(tab) != 32:
        res.violation("C17", "register-table", "register table has %d rows" % len(tab), case)
        return False
    for i, t in enumerate(tab):
        msg = check_repr(tuple(t), vals[i], 32)
        if msg:
            res.violation("C17", "register-table", "x%d = %#x shown as %r: %s" % (i, vals[i], t, msg), case)
            return False
    scribble(tab, res)
    return True


def check_memory_table(sim, shadow, res, case):
    back = getattr(sim.state.memory, "memory", sim.state.memory)
    decoy_riscv_touch()
    if len(shadow.written) % 2:
        other_views(back, res)
    tab = sim.get_data_memory_entries()
    res.count("memory_tables_checked")
    addrs = [row[0][0] for row in tab]
    must = sorted({a & ~3 for a in shadow.written})
    may = {a & ~3 for a in shadow.maybe}
    if addrs != sorted(addrs) or len(set(addrs)) != len(addrs):
        res.violation("C17", "memory-table-order", "memory table addresses not strictly ascending: %s" % addrs[:8], case)
        return False
    if not (set(must) <= set(addrs) <= set(must) | may):
        res.violation("C17", "memory-table-rows", "memory table lists words %s, backing store has written bytes in words %s" % ([hex(a) for a in addrs][:8], [hex(a) for a in must][:8]), case)
        return False
    for (a, ah), reprs in tab:
        res.count("memory_rows_checked")
        if ah != "0x%08X" % a or a & 3:
            res.violation("C17", "memory-table-address", "row address %r / %r" % (a, ah), case)
            return False
        v = int(back.read_word(a))
        msg = check_repr(tuple(reprs), v, 32)
        if msg:
            res.violation("C17", "memory-table-value", "word %#x = %#x shown as %r: %s" % (a, v, reprs, msg), case)
            return False
    scribble(tab, res)
    return True


def custom_regfile_sim(case):
    """RegisterFile documents a 'test mode': a plain list makes x0 an ordinary register.  The register table must
    show what the register file holds - also then."""
    import fixedint
    from architecture_simulator.simulation.riscv_simulation import RiscvSimulation
    from architecture_simulator.uarch.riscv.riscv_architectural_state import RiscvArchitecturalState
    from architecture_simulator.uarch.riscv.register_file import RegisterFile

    mode = "five_stage_pipeline" if case["mode"] == "five" else "single_stage_pipeline"
    regs = [fixedint.UInt32(v) for v in case["plain_regs"]]
    st = RiscvArchitecturalState(pipeline_mode=mode, register_file=RegisterFile(registers=regs))
    return RiscvSimulation(state=st, mode=mode)


def run_rv_case(case, res):
    if case.get("plain_regs"):
        sim = custom_regfile_sim(case)
        res.count("custom_register_file_cases")
    else:
        sim = make_riscv(case["mode"], hz=True, dcache=case.get("dcache"))
    install_program(sim, case["prog"])
    set_regs(sim, case["regs"])
    back = getattr(sim.state.memory, "memory", sim.state.memory)
    shadow = WriteShadow(back)
    preload_mem(sim, case["mem"])
    k = 0
    ok = check_register_table(sim, res, case) and check_memory_table(sim, shadow, res, case)
    while ok and not sim.is_done() and k < case["max_steps"]:
        try:
            sim.step()
        except Exception:
            # a faulting instruction ends the run; the tables must still be faithful
            ok = check_register_table(sim, res, case) and check_memory_table(sim, shadow, res, case)
            break
        k += 1
        ok = check_register_table(sim, res, case) and check_memory_table(sim, shadow, res, case)
    if case.get("dcache"):
        res.count("cached_table_checks")
    if ok and case.get("reload_text") is not None:
        # the same simulation object is loaded again (as the web UI does on every edit): the tables must show
        # the new memory contents only
        try:
            sim.load_program(case["reload_text"])
        except Exception:
            pass
        res.count("tables_after_reload_checked")
        ok = check_register_table(sim, res, case) and check_memory_table(sim, shadow, res, case)
        k2 = 0
        while ok and not sim.is_done() and k2 < 12:
            try:
                sim.step()
            except Exception:
                break
            k2 += 1
            ok = check_register_table(sim, res, case) and check_memory_table(sim, shadow, res, case)
    sub = any(d["m"] in ("sb", "sh") for d in case["prog"])
    if sub:
        res.count("subword_rows")
    if ok and len({a & ~3 for a in shadow.written}) >= 2 and sub:
        res.nontrivial(h64(case))


def run_toy_case(case, res):
    from . import toy as T

    if case.get("size"):
        # a TOY machine with another memory size (public constructor argument): the words are still 16 bits wide and
        # the program counter is still shown as a 12-bit value
        from architecture_simulator.simulation.toy_simulation import ToySimulation

        sim = ToySimulation(case["size"])
        sim.load_program(case["text"])
        res.count("toy_other_memory_sizes")
    else:
        sim, ref = T.setup(case)
    k = 0
    while True:
        st = sim.state
        decoy_toy_touch()
        if k % 2:
            other_views(st.memory, res)
        tab = sim.get_memory_table_entries()
        res.count("toy_tables_checked")
        cells = sorted(st.memory.memory_file.keys())
        addrs = [row[0][0] for row in tab]
        if addrs != cells:
            res.violation("C17", "toy-table-rows", "TOY memory table lists %s, written cells are %s" % (addrs[:8], cells[:8]), case)
            return
        for (a, ah), reprs, ins, cyc in tab:
            v = int(st.memory.read_halfword(a))
            msg = check_repr(tuple(reprs), v, 16)
            if msg or ah != "0x%03X" % a:
                res.violation("C17", "toy-table-value", "cell %d = %#x shown as %r / %r: %s" % (a, v, reprs, ah, msg), case)
                return
        rr = sim.get_register_representations()
        res.count("toy_register_reprs_checked")
        li = st.loaded_instruction
        irv = None if li is None else int(li)
        if li is not None:
            # the instruction register holds the word fetched from (pc - 1): for the thirteen real opcodes the
            # display must denote exactly that word (aliases 13-15 are normalised to NOP by the machine)
            fetched = int(st.memory.read_halfword((int(st.program_counter) - 1) % 4096))
            if (fetched >> 12) <= 12:
                res.count("toy_ir_vs_fetched_word")
                irv = fetched
        for key, val, n in (("accu", int(st.accu), 16), ("pc", int(st.program_counter), 12), ("ir", irv, 16)):
            if not sim.has_instructions():
                break  # nothing is loaded: the register boxes are blank by design, there is no value to denote
            if val is None:
                if tuple(rr[key]) != ("", "", "", ""):
                    res.violation("C17", "toy-register-repr", "%s shown as %r although no instruction is loaded" % (key, rr[key]), case)
                    return
                continue
            msg = check_repr(tuple(rr[key]), val, n)
            if msg:
                res.violation("C17", "toy-register-repr", "%s = %#x shown as %r: %s" % (key, val, rr[key], msg), case)
                return
        scribble(tab, res)
        scribble(rr, res)
        if sim.is_done() or k >= case["max_steps"]:
            break
        if case.get("size"):
            # on a machine with a SMALLER memory a (self-modified) instruction may name a cell that does not exist: that
            # step fails by design - the displayed values up to there were judged, the case ends
            try:
                sim.step()
            except Exception:
                res.count("toy_small_memory_step_failed")
                break
        else:
            sim.step()
        k += 1
    if len(sim.state.memory.memory_file) >= 2:
        res.nontrivial(h64(case))


def run_case(prop, case, res):
    if case["kind"] == "value":  # replay of a formatter witness
        from architecture_simulator.util.integer_representations import get_n_bit_representations

        r = get_n_bit_representations(case["value"], case["n"])
        msg = check_repr(r, case["value"], case["n"])
        if msg:
            res.violation("C17", "formatter", "%d-bit representation of %d = %r: %s" % (case["n"], case["value"], r, msg), case)
        return
    with FormatterWatch(res) as fw:
        if case["kind"] == "rv":
            run_rv_case(case, res)
        elif case["kind"] == "toy":
            run_toy_case(case, res)
    if fw.bad:
        res.violation("C17", "formatter-call", fw.bad, case)


def run_shard(spec, res):
    from architecture_simulator.util.integer_representations import get_n_bit_representations, get_12_bit_representations, get_16_bit_representations, get_32_bit_representations

    rng = rng_for("C17", spec["tier"], spec["seed"], spec["kind"], spec["shard"])
    k = spec["kind"]
    if k in ("fmt12", "fmt16"):
        n = 12 if k == "fmt12" else 16
        short = get_12_bit_representations if n == 12 else get_16_bit_representations
        for v in range(-(1 << n), 1 << (n + 1)):
            for f, r in (("n", get_n_bit_representations(v, n)), ("short", short(v))):
                msg = check_repr(r, v, n)
                if msg:
                    res.violation("C17", "formatter", "%d-bit representation of %d = %r: %s" % (n, v, r, msg), {"kind": "value", "value": v, "n": n})
                    return
            res.count("formatter_exhaustive_%d" % n)
            if not (0 <= v < (1 << (n - 1))):
                res.nontrivial(h64([v, n]))
        res.evaluations += 3 << n
        res.exhaustive = True
        res.extra["exhaustive_space"] = "all integers in [-2^n, 2^(n+1)) for n = 12 and n = 16"
        res.sample({"value": -1, "n": n, "repr": list(get_n_bit_representations(-1, n))}, 2)
        return
    if k == "fmt32":
        B = G.BOUND32 + [-1, -2, -(1 << 31), -(1 << 31) - 1, -(1 << 32), -(1 << 32) + 1, 1 << 32, (1 << 32) + 1, (1 << 33) - 1, 1 << 40, -(1 << 40)]
        for i in range(spec["n"]):
            v = B[i] if i < len(B) else rng.choice([rng.getrandbits(32), -rng.getrandbits(32), rng.getrandbits(34) - (1 << 33), (1 << rng.randrange(34)) - rng.choice([0, 1])])
            for r in (get_n_bit_representations(v, 32), get_32_bit_representations(v)):
                msg = check_repr(r, v, 32)
                if msg:
                    res.violation("C17", "formatter", "32-bit representation of %d = %r: %s" % (v, r, msg), {"kind": "value", "value": v, "n": 32})
                    return
            res.count("formatter_32")
            if not (0 <= v < (1 << 31)):
                res.nontrivial(h64([v, 32]))
        res.evaluations += spec["n"]
        return
    for it in range(spec["n"]):
        if k == "rv":
            if rng.random() < 0.5:
                prog, regs = G.soup_program(rng, rng.randint(2, 20), aligned=rng.random() < 0.5, mem_w=0.3), G.soup_regs(rng)
            else:
                prog, regs = G.structured_program(rng, size=rng.randint(4, 25), aligned=rng.random() < 0.5, faults=rng.random() < 0.2)
            mode = rng.choice(["single", "five"])
            if rng.random() < 0.15:
                # the last instructions: a store to the last word, then a store that straddles the top of memory (its
                # in-range bytes may be written before it is rejected) - the table after the failed step is judged too
                rx_ = rng.choice([1, 2, 3, 5])
                prog = prog + [{"m": rng.choice(["sw", "sh", "sb"]), "rs1": 0, "rs2": rx_, "imm": -4}, {"m": "addi", "rd": 0, "rs1": 0, "imm": 0}, {"m": "addi", "rd": 0, "rs1": 0, "imm": 0},
                               rng.choice([{"m": "sw", "rs1": 0, "rs2": rx_, "imm": rng.choice([-1, -2, -3])}, {"m": "sh", "rs1": 0, "rs2": rx_, "imm": -1}])]
            case = {"kind": "rv", "prog": prog, "regs": regs, "mem": G.init_mem(rng, n=24), "mode": mode, "max_steps": 150}
            k2 = rng.random()
            if k2 < 0.35:
                case["reload_text"] = rng.choice(["", "addi x1, x0, 1\nsw x1, 0(x31)", ".data\nq: .word 5, 6\n.text\nla x2, q\nsb x2, 1(x2)", "nop"])
            elif k2 < 0.45:
                case["plain_regs"] = [rng.choice([0, 7, 0xFFFFFFFF, rng.getrandbits(32)])] + [rng.getrandbits(32) for _ in range(31)]
                case["prog"] = [{"m": "addi", "rd": 0, "rs1": 0, "imm": rng.randint(-9, 9)}] + case["prog"][:6]
            if rng.random() < 0.4 and "plain_regs" not in case:
                from .cache import rand_cfg

                case["dcache"] = rand_cfg(rng, small=True)
                # with a cache keep accesses within one word
                case["prog"] = G.soup_program(rng, rng.randint(2, 20), aligned=True, mem_w=0.3) if rng.random() < 0.5 else G.structured_program(rng, size=rng.randint(4, 25), aligned=True)[0]
        else:
            from . import toy as T

            case = T.gen_prog_case(rng)
            if rng.random() < 0.25:
                sz_ = rng.choice([64, 256, 1024, 2048, 5000])
                case = {"text": T.gen_source(rng, sz_)["text"], "size": sz_, "pokes": {}, "acc": 0}
            case["kind"] = "toy"
            case["max_steps"] = 60
        guarded(run_case, "C17", case, res)
        res.evaluations += 1
        if it < 1:
            res.sample(case, 4)
