"""Engine `policy` - C10: exhaustive exploration of the reachable replacement-policy state space on the
REAL LRU / PLRU objects (branching by deepcopy, state identity = public get_repr()), reference policy
stepped alongside; random long histories for large associativities; set-level clause (which way a
fill displaces) via the accounting histories of the cache engine."""
import copy

from ..common import rng_for, h64
from ..refmodels.policies import RefLRU, RefPLRU

RULE = {
    "C10": "every reachable policy state x every access(i) for LRU (assoc 1..A) and PLRU (powers of two up to B), explored breadth-first on the real objects; after each transition victim, LRU age order and "
    "idempotence of a repeated access are compared with the reference policy; plus random histories on larger associativities and cache-level histories comparing the resident tag of every way after every access. "
    "non-trivial = distinct (policy, associativity, reachable state) with associativity >= 2 / cache histories with >= 1 eviction; distinct by state or case hash."
}
ASSUMPTIONS = {"C10": ["reference policies R5 (timestamps for LRU, explicit node tree for PLRU)", "LRU get_repr() is judged by the order it induces (ascending = oldest first), not by its absolute numbers", "associativities above the explored bound are only sampled by random histories"]}
REQUIRED = {"C10": ["below_range_rejected", "long_history_tag_checks", "bfs_transitions", "victim_checks", "idempotence_checks", "lru_order_checks", "set_tag_checks", "evictions", "random_history_accesses", "simcfg_fills_observed", "contains_probes"]}


def plan(prop, tier, seed):
    q = tier == "quick"
    sh = []
    for a in range(1, (6 if q else 9)):
        sh.append({"kind": "bfs", "policy": "lru", "assoc": a, "shard": a})
    for a in ([1, 2, 4, 8] if q else [1, 2, 4, 8, 16]):
        sh.append({"kind": "bfs", "policy": "plru", "assoc": a, "shard": 100 + a})
    sh += [{"kind": "random", "n": 40 if q else 600, "shard": i} for i in range(2 if q else 8)]
    sh += [{"engine": "cache", "kind": "hist", "n": 80 if q else 1500, "ops": 150, "shard": i} for i in range(6 if q else 16)]
    sh += [{"engine": "cache", "kind": "bfs", "depth": 4 if q else 6, "cfgi": i, "shard": i, "acct": True} for i in (1, 2, 6, 7)]
    sh += [{"kind": "simcfg", "n": 120 if q else 2500, "shard": i} for i in range(3 if q else 8)]
    # histories in which NOTHING is read between the accesses (a policy may not depend on being looked at), and the
    # generic Cache driven directly through its public read_block / write_block
    sh += [{"kind": "blind", "n": 300 if q else 6000, "shard": i} for i in range(2 if q else 6)]
    sh += [{"kind": "rawcache", "n": 150 if q else 3000, "shard": i} for i in range(2 if q else 6)]
    # long histories on bare memory systems (hot phases, then conflict misses): the ways the fills take, by resident tag
    from .cache import LONGHIST

    sh += [{"engine": "cache", "kind": "longhist", "cfgi": i, "shard": i} for i in range(len(LONGHIST))]
    return sh


def make(policy, assoc):
    from architecture_simulator.uarch.memory.replacement_strategies import LRU, PLRU

    return (LRU if policy == "lru" else PLRU)(assoc), (RefLRU if policy == "lru" else RefPLRU)(assoc)


def check_after(real, ref, policy, assoc, i, res, case):
    """monitor evaluated after real.access(i) / ref.access(i)"""
    res.count("victim_checks")
    v, w = real.get_next_to_replace(), ref.victim()
    if v != w:
        res.violation("C10", "victim", "%s(%d) after %s: get_next_to_replace()=%r, reference victim=%r" % (policy, assoc, case["path"][-6:], v, w), case)
        return False
    if assoc > 1 and v == i:
        res.violation("C10", "victim-is-mru", "%s(%d): block %d was just accessed and is the next victim" % (policy, assoc, i), case)
        return False
    if policy == "lru":
        res.count("lru_order_checks")
        rp = real.get_repr()
        order_real = sorted(range(assoc), key=lambda b: rp[b])
        rk = ref.ranks()
        order_ref = sorted(range(assoc), key=lambda b: rk[b])
        if len(set(rp)) != assoc or order_real != order_ref:
            res.violation("C10", "lru-age-order", "LRU(%d) after %s: reported ages %r induce order %r, reference (oldest first) %r" % (assoc, case["path"][-6:], rp, order_real, order_ref), case)
            return False
    # idempotence: a second access to the same block changes neither the reported state nor the victim
    res.count("idempotence_checks")
    before = copy.deepcopy(real.get_repr())
    real.access(i)
    if real.get_repr() != before or real.get_next_to_replace() != v:
        res.violation("C10", "not-idempotent", "%s(%d): second access(%d) changed state %r -> %r / victim %r -> %r" % (policy, assoc, i, before, real.get_repr(), v, real.get_next_to_replace()), case)
        return False
    return True


def run_bfs(spec, res):
    policy, assoc = spec["policy"], spec["assoc"]
    r0, f0 = make(policy, assoc)
    case0 = {"kind": "bfs", "policy": policy, "assoc": assoc, "path": []}
    # fresh state: never-accessed blocks are replaced first, in index order
    if r0.get_next_to_replace() != f0.victim():
        res.violation("C10", "victim", "fresh %s(%d): victim %r, reference %r" % (policy, assoc, r0.get_next_to_replace(), f0.victim()), case0)
        return
    key = lambda o: repr(o.get_repr())
    seen = {key(r0)}
    frontier = [(r0, f0, [])]
    trans = 0
    while frontier:
        nxt = []
        for real, ref, path in frontier:
            for i in range(assoc):
                c, cf = copy.deepcopy(real), copy.deepcopy(ref)
                case = {"kind": "path", "policy": policy, "assoc": assoc, "path": path + [i]}
                try:
                    c.access(i)
                    cf.access(i)
                    trans += 1
                    ok = check_after(c, cf, policy, assoc, i, res, case)
                except Exception as e:
                    res.violation("C10", "unexpected-exception", "%s(%d) path %s raised %r" % (policy, assoc, case["path"][-6:], e), case)
                    ok = False
                if not ok:
                    res.transitions += trans
                    res.states += len(seen)
                    return
                k = key(c)
                if k not in seen:
                    seen.add(k)
                    nxt.append((c, cf, path + [i]))
                    if assoc >= 2:
                        res.nontrivial(h64([policy, assoc, k]))
        frontier = nxt
    res.states += len(seen)
    res.transitions += trans
    res.evaluations += trans
    res.count("bfs_transitions", trans)
    res.count("bfs_states", len(seen))
    res.exhaustive = True
    res.sample({"policy": policy, "assoc": assoc, "reachable_states": len(seen), "transitions": trans}, 20)
    res.extra["exploration"] = "all reachable states (by public get_repr()) x all access(i), LRU and PLRU, on the real objects"


def run_simcfg_case(case, res):
    """the policies as CONFIGURED through CacheOptions on a simulation: single-cycle runs, the instruction cache is
    observed through get_instruction_cache_entries() (one fetch per step at the pc), the data cache through
    get_data_cache_entries() (one access per load/store at the address computed from the registers before the
    step); each must fill the way its own configured policy selects."""
    from ..common import make_riscv, install_program, set_regs, preload_mem, real_regs
    from ..refmodels.rv32 import srcs, LOADS, STORES
    from .cache import PolicyObserver, view_of

    dc, ic = case.get("dcache"), case.get("icache")
    sim = make_riscv("single", dcache=dc, icache=ic)
    install_program(sim, case["prog"])
    set_regs(sim, case["regs"])
    preload_mem(sim, case["mem"])
    prog = {4 * i: d for i, d in enumerate(case["prog"])}
    obs_i = PolicyObserver(ic["ib"], ic["bb"], ic["assoc"], ic["policy"], view_of(sim.get_instruction_cache_entries())) if ic else None
    obs_d = PolicyObserver(dc["ib"], dc["bb"], dc["assoc"], dc["policy"], view_of(sim.get_data_cache_entries())) if dc else None
    k = 0
    while not sim.is_done() and k < 250:
        pc = sim.state.program_counter
        d = prog.get(pc)
        rr = real_regs(sim)
        hooked = False
        if obs_d and d is not None and d["m"] == "ecall" and rr[17] == 4:
            # print-string: a burst of uncounted byte reads inside one step; every single read is an event for the
            # policy, so the public read_byte of the memory system is wrapped for this step only
            mem_ = sim.state.memory
            orig_ = mem_.read_byte
            bad_ = []

            def spy(address, *a_, _orig=orig_, **kw_):
                v_ = _orig(address, *a_, **kw_)
                cr2 = sim.get_data_cache_entries()
                r_ = obs_d.observe(view_of(cr2), int(address), cr2)
                if r_:
                    bad_.append(r_)
                res.count("simcfg_print_string_reads_observed")
                return v_

            mem_.read_byte = spy
            hooked = True
        try:
            sim.step()
        except Exception:
            break
        finally:
            if hooked:
                del mem_.read_byte
        if hooked and bad_:
            res.violation("C10", bad_[0][0], "data cache configured as %s: step %d (print-string ecall): %s" % (dc["policy"], k + 1, bad_[0][1]), case)
            return
        k += 1
        res.count("simcfg_steps")
        if obs_i:
            cr_ = sim.get_instruction_cache_entries()
            r = obs_i.observe(view_of(cr_), pc, cr_)
            if r:
                res.violation("C10", r[0], "instruction cache configured as %s: step %d (fetch at %d): %s" % (ic["policy"], k, pc, r[1]), case)
                return
        if obs_d and d is not None:
            addr = None
            if d["m"] in LOADS or d["m"] in STORES:
                addr = (rr[d["rs1"]] + d["imm"]) & 0xFFFFFFFF
            cr_ = sim.get_data_cache_entries()
            r = obs_d.observe(view_of(cr_), addr, cr_)
            if r and addr is not None:
                res.violation("C10", r[0], "data cache configured as %s: step %d (%s at %#x): %s" % (dc["policy"], k, d["m"], addr, r[1]), case)
                return
    fills = (obs_i.fills if obs_i else 0) + (obs_d.fills if obs_d else 0)
    res.count("simcfg_fills_observed", fills)
    res.count("simcfg_reported_age_checks", (obs_i.age_checks if obs_i else 0) + (obs_d.age_checks if obs_d else 0))
    if fills > 4:
        res.nontrivial(h64(case))


def run_case(prop, case, res):
    """replay: a path of accesses from the fresh state"""
    if case.get("kind") == "simcfg":
        run_simcfg_case(case, res)
        return
    if case.get("kind") == "blind":
        run_blind_case(case, res)
        return
    if case.get("kind") == "rawcache":
        run_rawcache_case(case, res)
        return
    policy, assoc = case["policy"], case["assoc"]
    real, ref = make(policy, assoc)
    path = case.get("path", [])
    for n, i in enumerate(path):
        real.access(i)
        ref.access(i)
        if not check_after(real, ref, policy, assoc, i, res, {"kind": "path", "policy": policy, "assoc": assoc, "path": path[: n + 1]}):
            return


def run_blind_case(case, res):
    """real policy object: bursts of accesses with no read of any kind in between; only at the end of a burst the
    victim (and for LRU the reported order) is compared with the reference"""
    policy, assoc = case["policy"], case["assoc"]
    real, ref = make(policy, assoc)
    for bi, burst in enumerate(case["bursts"]):
        for i in burst:
            real.access(i)
            ref.access(i)
            res.count("blind_accesses")
        res.count("blind_bursts_checked")
        v, w = real.get_next_to_replace(), ref.victim()
        if v != w:
            res.violation("C10", "victim", "%s(%d) after %d unobserved accesses %s (burst %d): get_next_to_replace()=%r, reference victim=%r" % (policy, assoc, len(burst), burst[-12:], bi, v, w), case)
            return
        if policy == "lru":
            rp = real.get_repr()
            rk = ref.ranks()
            if len(set(rp)) != assoc or sorted(range(assoc), key=lambda b: rp[b]) != sorted(range(assoc), key=lambda b: rk[b]):
                res.violation("C10", "lru-age-order", "LRU(%d) after %d unobserved accesses (burst %d): reported ages %r, reference order (oldest first) %r" % (assoc, len(burst), bi, rp, sorted(range(assoc), key=lambda b: rk[b])), case)
                return
    res.nontrivial(h64(case))


def gen_blind_case(rng):
    policy = rng.choice(["lru", "lru", "plru"])
    assoc = rng.choice([2, 4, 8, 16] if policy == "plru" else [2, 3, 4, 5, 6, 8, 12])
    bursts = []
    for _ in range(rng.randint(1, 6)):
        hot = rng.sample(range(assoc), rng.randint(1, assoc))
        bursts.append([rng.choice(hot) if rng.random() < 0.8 else rng.randrange(assoc) for _ in range(rng.randint(1, 4 * assoc))])
    return {"kind": "blind", "policy": policy, "assoc": assoc, "bursts": bursts}


def run_rawcache_case(case, res):
    """the generic Cache driven directly through its public read_block / write_block (a write to a resident block is
    an access like any other); observed through get_repr() only every few operations"""
    from architecture_simulator.uarch.memory.cache import Cache
    from architecture_simulator.uarch.memory.decoded_address import DecodedAddress
    from architecture_simulator.uarch.memory.replacement_strategies import LRU, PLRU
    from ..refmodels.policies import make_policy

    ib, bb, assoc, policy = case["ib"], case["bb"], case["assoc"], case["policy"]
    c = Cache(ib, bb, assoc, LRU if policy == "lru" else PLRU)
    pols = [make_policy(policy, assoc) for _ in range(1 << ib)]
    tags = [[None] * assoc for _ in range(1 << ib)]  # reference residency, way by way
    nw = 1 << bb
    for n, (op, addr, look) in enumerate(case["ops"]):
        blk = addr >> (2 + bb)
        sidx, tag = blk & ((1 << ib) - 1), blk >> ib
        da = DecodedAddress(ib, bb, addr)
        res.count("rawcache_ops")
        if op == "r":
            got = c.read_block(da)
            if (got is not None) != (tag in tags[sidx]):
                res.violation("C10", "rawcache-residency", "op #%d read_block(%#x): %s, reference says the block is %s" % (n, addr, "hit" if got is not None else "miss", "resident" if tag in tags[sidx] else "absent"), case)
                return
            if got is not None:
                pols[sidx].access(tags[sidx].index(tag))
        else:
            c.write_block(da, [n] * nw)
            if tag in tags[sidx]:
                pols[sidx].access(tags[sidx].index(tag))
                res.count("rawcache_write_hits")
            else:
                v = pols[sidx].victim()
                tags[sidx][v] = tag
                pols[sidx].access(v)
        if look:
            res.count("rawcache_looks")
            cr = c.get_repr()
            real_tags = [[int(b.tag, 16) if b.valid_bit == "1" else None for b in s_.blocks] for s_ in cr.sets]
            if real_tags != tags:
                res.violation("C10", "displaced-way", "op #%d %s %#x: resident tags by way %r, reference (victims chosen by the %s reference for this access history) %r" % (n, op, addr, real_tags, policy, tags), case)
                return
            if policy == "lru":
                from .cache import lru_age_mismatch

                m_ = lru_age_mismatch(cr, pols)
                if m_:
                    res.violation("C10", "lru-age-order", "op #%d %s %#x: %s" % (n, op, addr, m_), case)
                    return
    res.nontrivial(h64(case))


def gen_rawcache_case(rng):
    policy = rng.choice(["lru", "plru"])
    ib, bb = rng.choice([0, 0, 1]), rng.choice([0, 1])
    assoc = rng.choice([2, 4, 8] if policy == "plru" else [2, 3, 4, 5, 8])
    nb = assoc + rng.randint(1, 3)
    blocks = [0x4000 + (k << (2 + bb + ib)) + (s_ << (2 + bb)) for k in range(nb) for s_ in range(1 << ib)]
    dense = rng.random() < 0.5
    ops = []
    for _ in range(rng.randint(10, 80)):
        hot = rng.random() < 0.7
        a = rng.choice(blocks[: max(2, assoc)] if hot else blocks)
        ops.append([rng.choice(["r", "w", "w"]), a, rng.random() < (0.8 if dense else 0.08)])
    ops[-1][2] = True
    return {"kind": "rawcache", "ib": ib, "bb": bb, "assoc": assoc, "policy": policy, "ops": ops}


def gen_simcfg_case(rng):
    from ..gen import progs as G

    def cfg(data):
        policy = rng.choice(["lru", "plru"])
        c = {"ib": rng.choice([0, 0, 1]), "bb": rng.choice([0, 0, 1]), "assoc": rng.choice([2, 4, 8] if policy == "plru" else [2, 3, 4, 5]), "policy": policy, "pen": 0}
        if data:
            c["wt"] = rng.random() < 0.5
        return c

    if rng.random() < 0.6:
        prog, regs = G.structured_program(rng, size=rng.randint(8, 40), aligned=True)
    else:
        prog, regs = G.soup_program(rng, rng.randint(6, 30), aligned=True, mem_w=0.35, window=256), G.soup_regs(rng, bad_ecall=0)
    regs["17"] = rng.choice([1, 11, 34, 36])  # no print-string (many uncounted reads in one step)
    case = {"kind": "simcfg", "prog": prog, "regs": regs, "mem": G.init_mem(rng), "icache": cfg(False) if rng.random() < 0.8 else None, "dcache": cfg(True) if rng.random() < 0.8 else None}
    if not case["icache"] and not case["dcache"]:
        case["icache"] = cfg(False)
    return case


def run_shard(spec, res):
    if spec["kind"] == "bfs":
        run_bfs(spec, res)
        return
    if spec["kind"] in ("blind", "rawcache"):
        from ..common import guarded

        rng = rng_for("C10", spec["tier"], spec["seed"], spec["kind"], spec["shard"])
        for it in range(spec["n"]):
            case = gen_blind_case(rng) if spec["kind"] == "blind" else gen_rawcache_case(rng)
            guarded(run_case, "C10", case, res)
            res.evaluations += 1
            if it < 1:
                res.sample(case, 20)
        return
    if spec["kind"] == "simcfg":
        from ..common import guarded

        rng = rng_for("C10", spec["tier"], spec["seed"], "simcfg", spec["shard"])
        for it in range(spec["n"]):
            case = gen_simcfg_case(rng)
            guarded(run_case, "C10", case, res)
            res.evaluations += 1
            if it < 1:
                res.sample(case, 20)
        return
    rng = rng_for("C10", spec["tier"], spec["seed"], spec["shard"])
    for it in range(spec["n"]):
        policy = rng.choice(["lru", "plru"])
        assoc = rng.choice([16, 32, 64, 128] if policy == "plru" else [6, 7, 9, 12, 16, 31, 64])
        real, ref = make(policy, assoc)
        path = []
        hot = rng.sample(range(assoc), min(assoc, rng.choice([2, 3, assoc])))
        ok = True
        phased = it % 3 == 0
        for n_ in range(900 if phased else 300):
            i = rng.choice(hot) if rng.random() < 0.6 else rng.randrange(assoc)
            if rng.random() < 0.2:
                i = real.get_next_to_replace()  # fill pattern: always access the victim
            if phased and (n_ % 450) < 400:
                # hot phase: two or three blocks used in turn for hundreds of accesses, everything else idle
                i = hot[n_ % min(len(hot), 3)]
            path.append(i)
            real.access(i)
            ref.access(i)
            res.count("random_history_accesses")
            if not check_after(real, ref, policy, assoc, i, res, {"kind": "path", "policy": policy, "assoc": assoc, "path": list(path)}):
                ok = False
                break
        res.evaluations += 1
        if ok:
            res.nontrivial(h64([policy, assoc, path]))
        if it < 1:
            res.sample({"policy": policy, "assoc": assoc, "path_prefix": path[:20]}, 20)
