"""Engine `toy` - C06 (execution vs. reference accumulator machine), C19 (encoding + assembler),
C20 (whole steps == half-cycle steps, sequencing errors)."""
from ..common import guarded, rng_for, h64, with_alarm, AlarmTimeout, decoy_toy_touch
from ..refmodels.toy import RefToy, MNEMONICS, ADDRESS_TYPE, decode_word

RULE = {
    "C06": "(a) every 16-bit word placed behind an assembled NOP (so it passes the real fetch/decode) x boundary accumulator / operand-cell combinations, (b) random self-modifying programs (stores into the program area, BRZ beyond the end / to 4095, opcode aliases 13-15, a full 4096-instruction program for pc wrap), "
    "lockstep-compared with the reference machine after every step (accu, pc, all memory words, instruction/cycle/branch counters, done). non-trivial = single words: all with opcode != NOP; programs: executed >=1 instruction they had overwritten; distinct by case hash.",
    "C19": "exhaustive decode/encode round trip over all 2^16 words and all assembler-constructible instructions; grammar-generated sources (labels stand-alone/in-line, data before/after text, arrays, forward refs, dec/hex, mixed case, comments) compared word by word with the AST's image; documented examples run to completion. "
    "non-trivial = sources with >=1 variable, >=1 label reference and >=1 array; words: opcode <= 12; distinct by hash.",
    "C20": "C06 programs x random call strings over {step, first_cycle_step, second_cycle_step, single_step, run} with ~25% illegal calls; a twin driven by step() only is compared at every instruction boundary on the full observable snapshot; illegal calls must raise StepSequenceError and leave the snapshot unchanged; all calls are no-ops when done. "
    "non-trivial = call string containing both explicit halves, single_step and >=1 illegal call; distinct by case hash.",
}
ASSUMPTIONS = {
    "C06": ["reference machine R6 (vp/refmodels/toy.py) written from the TOY help page", "the displayed program counter runs one ahead of the address of the loaded instruction (pc - 1 mod 4096 = address executed next)"],
    "C19": ["image computed from the generator's AST, never by parsing text"],
    "C20": ["a 2-state reference automaton (which half is due) decides legality of each call"],
}
REQUIRED = {
    "C06": ["steps_compared", "single_word_cases", "program_cases", "self_modified_executed", "brz_taken", "opcode_alias_executed", "pc_wrap_steps", "selfmod_last_reexecuted", "selfmod_body_reexecuted", "loads_into_reused_simulation"],
    "C19": ["words_round_tripped", "sources_compared", "label_refs", "array_vars", "doc_examples", "sources_with_other_memory_size", "over_wide_operands_encoded", "tight_memory_sources"],
    "C20": ["loaded_into_machine_abandoned_mid_instruction", "boundary_snapshots_compared", "illegal_calls_checked", "calls_after_done", "first_halves", "second_halves", "single_steps", "empty_program_call_strings"],
}


def plan(prop, tier, seed):
    q = tier == "quick"
    if prop == "C06":
        sh = [{"kind": "words", "lo": i * 4096, "hi": (i + 1) * 4096, "combos": 1 if q else 20, "shard": i} for i in range(16)]
        sh += [{"kind": "progs", "n": 400 if q else 7000, "shard": i} for i in range(8 if q else 16)]
        sh += [{"kind": "full", "shard": 0}]
        if not q:
            # one run() of more than 2^20 instructions (thorough tier only: 11 s for the real machine alone)
            sh += [{"kind": "longrun", "shard": 0}]
        return sh
    if prop == "C19":
        return [{"kind": "encode", "shard": 0}, {"kind": "docs", "shard": 0}] + [{"kind": "asm", "n": 60 if q else 1000, "shard": i} for i in range(6 if q else 16)]
    return [{"kind": "halves", "n": 300 if q else 4000, "shard": i} for i in range(8 if q else 16)]


# ------------------------------------------------------------------------------------------ helpers


_FRONT = {"n": 0, "prev": None}


def new_sim(text):
    from architecture_simulator.simulation.toy_simulation import ToySimulation

    _FRONT["n"] += 1
    s = None
    if _FRONT["n"] % 4 == 0:
        # the way the web front end gets its machine (gui.webgui.get_toy_simulation(), asked again on every reset) - and
        # the session it handed out before is abandoned in the MIDDLE of an instruction
        try:
            from architecture_simulator.gui import webgui

            prev = _FRONT["prev"]
            if prev is not None:
                try:
                    prev.load_program("INC\nINC\nINC")
                    prev.first_cycle_step()
                except Exception:
                    pass
            s = _FRONT["prev"] = webgui.get_toy_simulation()
        except Exception:
            s = None
    if s is None:
        s = ToySimulation()
    s.load_program(text)
    return s


def poke(sim, a, v):
    from fixedint import UInt16

    sim.state.memory.write_halfword(a, UInt16(v))


def word_text(w):
    m, a = decode_word(w)
    return "%s %d" % (m, a) if m in ADDRESS_TYPE else m


def real_mem(sim):
    return {a: int(v) for a, v in sim.state.memory.memory_file.items() if int(v)}


def compare(sim, ref, res, case, where):
    bad = []
    if int(sim.state.accu) != ref.acc:
        bad.append("accu real=%#x ref=%#x" % (int(sim.state.accu), ref.acc))
    if not (0 <= int(sim.state.program_counter) < 4096):
        bad.append("program counter %d is not a 12-bit value" % int(sim.state.program_counter))
    if (int(sim.state.program_counter) - 1) % 4096 != ref.pc:
        bad.append("pc real=%d (address executed next %d) ref=%d" % (int(sim.state.program_counter), (int(sim.state.program_counter) - 1) % 4096, ref.pc))
    if real_mem(sim) != {a: v for a, v in ref.m.items() if v}:
        rm, fm = real_mem(sim), {a: v for a, v in ref.m.items() if v}
        d = sorted(a for a in set(rm) | set(fm) if rm.get(a, 0) != fm.get(a, 0))
        bad.append("memory differs at %s" % [(a, rm.get(a, 0), fm.get(a, 0)) for a in d[:4]])
    pm = sim.state.performance_metrics
    if (pm.instruction_count, pm.cycles, pm.branch_count) != (ref.n, 2 * ref.n, ref.br):
        bad.append("counters (instructions, cycles, branches) real=%r ref=%r" % ((pm.instruction_count, pm.cycles, pm.branch_count), (ref.n, 2 * ref.n, ref.br)))
    if bool(sim.is_done()) != bool(ref.done):
        bad.append("done real=%r ref=%r" % (sim.is_done(), ref.done))
    if bad:
        res.violation("C06", "state-mismatch", "%s: %s" % (where, "; ".join(bad)), case)
        return False
    return True


def setup(case, sim=None):
    """case: text (assembled prefix), pokes {addr: word}, acc; optional w0/L = first word and length of the
    assembled prefix (then the reference image is computed from the case, not read back from the simulator).
    sim: an already used ToySimulation to load into (re-use of one simulation object, as the web UI does)."""
    from fixedint import UInt16

    if sim is None:
        sim = new_sim(case["text"])
    else:
        sim.load_program(case["text"])
    for a, v in case["pokes"].items():
        poke(sim, int(a), v)
    sim.state.accu = UInt16(case["acc"])
    if "img" in case:
        # assembled from a generated source: the reference image is the AST's image, the end of the program the AST's
        mem = {int(a): v for a, v in case["img"].items()}
        mem.update({int(a): v for a, v in case["pokes"].items()})
        maxpc = case["maxpc"]
    elif "w0" in case:
        mem = {0: case["w0"]}
        mem.update({i: 0xC000 for i in range(1, case["L"])})
        mem.update({int(a): v for a, v in case["pokes"].items()})
        maxpc = case["L"] - 1
    else:
        mem = {a: int(v) for a, v in sim.state.memory.memory_file.items()}
        maxpc = sim.state.max_pc
    ref = RefToy(mem, maxpc, case["acc"])
    return sim, ref


def run_exec_case(case, res, sim=None):
    sim, ref = setup(case, sim)
    if not compare(sim, ref, res, case, "after load"):
        return
    steps = 0
    while not ref.done and steps < case["max_steps"]:
        w = ref.m.get(ref.pc, 0)
        at = ref.pc
        # an instruction is an instruction however it is driven: whole steps, the two explicit half cycles, or
        # single-cycle calls (what the GUI's cycle stepping uses) - chosen per case, mixed for "mixed"
        drive = case.get("drive", "step")
        if drive == "mixed":
            drive = ("step", "halves", "single")[(steps + len(case["text"])) % 3]
        if drive == "halves":
            sim.first_cycle_step()
            decoy_toy_touch()
            sim.second_cycle_step()
            ret = not sim.is_done()
            res.count("instructions_driven_by_half_cycles")
        elif drive == "single":
            sim.single_step()
            sim.single_step()
            ret = not sim.is_done()
            res.count("instructions_driven_by_half_cycles")
        else:
            ret = sim.step()
        if not case.get("single_word"):
            decoy_toy_touch()  # another live machine executes half a cycle in between
        ref.step()
        steps += 1
        res.count("steps_compared")
        if (w >> 12) == 2 and ref.pc == (w & 0xFFF) and ref.br:
            res.count("brz_taken")
        if (w >> 12) >= 13:
            res.count("opcode_alias_executed")
        if at == 4095:
            res.count("pc_wrap_steps")
        if not compare(sim, ref, res, case, "after step %d (executed %s at %d)" % (steps, word_text(w), at)):
            return
        if ret is not (not sim.is_done()):
            res.violation("C13", "step-return", "TOY step() returned %r but is_done()=%r" % (ret, sim.is_done()), case)
    if ref.executed_overwritten:
        res.count("self_modified_executed", ref.executed_overwritten)
    if ref.done and sim.is_done() and (steps + len(case["text"])) % 3 == 0 and not case.get("single_word"):
        # the same program once more through run(), with nothing read until it has returned: what it leaves is what the
        # observed step-by-step execution left
        sim2, _ = setup(case)
        try:
            with_alarm(15, sim2.run)
        except AlarmTimeout:
            res.violation("C06", "unobserved-run-differs", "run() with nothing attached did not return within 15 s of CPU time; the observed execution finished after %d instructions" % steps, case)
            return ref
        res.count("unobserved_runs_compared")
        f_ = lambda s_: (int(s_.state.accu), int(s_.state.program_counter), real_mem(s_), s_.state.performance_metrics.instruction_count, s_.state.performance_metrics.cycles, s_.state.performance_metrics.branch_count, bool(s_.is_done()))
        a_, b_ = f_(sim), f_(sim2)
        if a_ != b_:
            names = ["accu", "pc", "memory", "instruction count", "cycles", "branch count", "done"]
            res.violation("C06", "unobserved-run-differs", "run() with nothing attached leaves other %s than the observed step-by-step execution" % [names[i] for i in range(7) if a_[i] != b_[i]], case)
    return ref


def gen_prog_case(rng):
    L = rng.randint(1, 12)
    first = rng.choice([w for w in (rng.getrandbits(16) for _ in range(8))])
    first = (rng.choice(range(13)) << 12) | (first & 0xFFF if (first >> 12) < 8 else 0)
    if (first >> 12) >= 8:
        first &= 0xF000
    words = [first]
    for i in range(1, L):
        op = rng.choice([0, 0, 1, 2, 2, 3, 4, 5, 6, 7, 8, 9, 10, 11, 12, 13, 15])
        a = rng.choice([rng.randrange(0, L + 2), rng.randrange(0, L + 2), 4095, 4094, rng.randrange(4096)])
        words.append((op << 12) | a)
    text = "\n".join([word_text(words[0])] + ["NOP"] * (L - 1))
    pokes = {str(i): w for i, w in enumerate(words) if i}
    for a in (4095, 4094, L, L + 1):
        # (value coincidences: a cell that holds its own address, the address of another cell, a copy of a program word)
        pokes[str(a)] = rng.choice([0, 1, 0xFFFF, 0x8000, rng.getrandbits(16), (0 << 12) | rng.randrange(L), a, L, rng.choice(words)])
    return {"kind": "exec", "text": text, "pokes": pokes, "acc": rng.choice([0, 0, 1, 0xFFFF, 0x8000, rng.getrandbits(16), L, L + 1, 4095, rng.choice(words)]), "max_steps": 120, "w0": words[0], "L": L, "drive": rng.choice(["step", "step", "halves", "single", "mixed"])}


def gen_restore_case(rng):
    """save / patch / restore: LDA a; change the accumulator; STO a; change it back WITHOUT another LDA; STO a again
    (a data cell or an instruction word that executes afterwards) - every STO writes, whatever was loaded before"""
    OP = {m: i << 12 for i, m in enumerate(MNEMONICS)}
    pre = [rng.choice([OP["INC"], OP["DEC"], OP["NOT"], OP["NOP"]]) for _ in range(rng.randint(0, 2))]
    pair = rng.choice([("INC", "DEC"), ("DEC", "INC"), ("NOT", "NOT"), ("INC", "DEC")])
    n_mid = rng.randint(1, 3)
    body_len = len(pre) + 1 + n_mid + 1 + n_mid + 1
    tail = [rng.choice([OP["INC"], OP["NOP"], OP["DEC"]]) for _ in range(rng.randint(1, 4))]
    L = body_len + len(tail)
    in_prog = rng.random() < 0.5
    a = body_len + rng.randrange(len(tail)) if in_prog else L + 1 + rng.randrange(3)  # a later instruction word / a data cell
    words = pre + [OP["LDA"] | a] + [OP[pair[0]]] * n_mid + [OP["STO"] | a] + [OP[pair[1]]] * n_mid + [OP["STO"] | a] + tail
    if rng.random() < 0.5:
        words.append(OP["ADD"] | a)
        L += 1
    text = "\n".join([word_text(words[0])] + ["NOP"] * (L - 1))
    pokes = {str(i): w for i, w in enumerate(words) if i}
    for c in range(L + 1, L + 4):
        pokes[str(c)] = rng.choice([0, 1, 0xFFFF, rng.getrandbits(16)])
    return {"kind": "exec", "text": text, "pokes": pokes, "acc": rng.getrandbits(16), "max_steps": 60, "w0": words[0], "L": L}


def _filler(rng, cells):
    """non-control word that does not store into the program: address-type ops on data cells, or accumulator ops"""
    op = rng.choice([1, 3, 4, 5, 6, 7, 8, 9, 10, 11, 12, 13, 14, 15])
    return (op << 12) | (rng.choice(cells) if op < 8 else rng.choice([0, 0, rng.randrange(4096)]))


def gen_selfmod_case(rng):
    """two-pass program: an instruction T executes in pass 1, is overwritten by a STO in pass 2 and then executes
    again (T = the LAST instruction - the loop's back edge - or an instruction inside the loop body)."""
    nb = rng.randint(0, 5)
    last = rng.random() < 0.5
    cells = None
    # layout: 0 LDA F | 1 BRZ 4 | 2 LDA W | 3 STO T | 4.. body | tail
    body_at = 4
    if last:
        tail = ["LDA_ONE", "STO_F", "ZRO", "BRZ0"]
    else:
        tail = ["LDA_F", "BRZ_SET", "ZRO", "BRZ_END", "LDA_ONE", "STO_F", "ZRO", "BRZ0"]
    L = body_at + nb + len(tail)
    F, W, ONE = L + 1, L + 2, L + 3
    cells = [L + 4, L + 5, 4094, 4095]
    body = [_filler(rng, cells) for _ in range(nb)]
    if last or nb == 0:
        T = L - 1
        last = True
        if tail[0] != "LDA_ONE":
            tail = ["LDA_ONE", "STO_F", "ZRO", "BRZ0"]
            L = body_at + nb + len(tail)
            F, W, ONE = L + 1, L + 2, L + 3
            T = L - 1
    else:
        T = body_at + rng.randrange(nb)
    set_at = body_at + nb + 4
    enc = {"LDA_F": (1 << 12) | F, "BRZ_SET": (2 << 12) | set_at, "ZRO": 11 << 12, "BRZ_END": (2 << 12) | rng.choice([4095, L, L + 7]), "LDA_ONE": (1 << 12) | ONE, "STO_F": (0 << 12) | F, "BRZ0": (2 << 12) | 0}
    words = [(1 << 12) | F, (2 << 12) | 4, (1 << 12) | W, (0 << 12) | T] + body + [enc[t] for t in tail]
    assert len(words) == L
    neww = _filler(rng, cells) if rng.random() < 0.8 else rng.getrandbits(16)
    if neww == words[T]:
        neww ^= 0x1000
    pokes = {str(i): w for i, w in enumerate(words) if i}
    pokes.update({str(F): 0, str(W): neww, str(ONE): 1})
    for c in cells:
        pokes[str(c)] = rng.choice([0, 1, 0xFFFF, rng.getrandbits(16)])
    text = "\n".join([word_text(words[0])] + ["NOP"] * (L - 1))
    return {"kind": "exec", "text": text, "pokes": pokes, "acc": rng.choice([0, 1, rng.getrandbits(16)]), "max_steps": 150, "w0": words[0], "L": L, "selfmod": "last" if last else "body"}


ACCS = [0, 1, 0x7FFF, 0x8000, 0xFFFF]


# ------------------------------------------------------------------------------------------ C19 assembler AST


def gen_source(rng, size=4096, tight=False):
    """AST -> (text, expected image {addr: word}, expected max_pc, stats); size = number of memory words"""
    case_of = lambda m: rng.choice([m, m.lower(), m.capitalize()])
    nv = rng.randint(0, 4)
    variables, top, img = [], size - 1, {}
    arrays = 0
    for i in range(nv):
        vals = [rng.choice([0, 1, 65535, rng.getrandbits(16), rng.getrandbits(12)]) for _ in range(rng.randint(1, 4))]
        if len(vals) > 1:
            arrays += 1
        top -= len(vals)
        a = top + 1
        vname = "v%d" % i if rng.random() < 0.7 else "_Var_%d" % i
        if rng.random() < 0.08 and not any(v_[0].lower() in ("inc", "dec", "or", "not") for v_ in variables):
            vname = ["inc", "dec", "Or", "not"][i % 4]  # the documented grammar reserves no names
        variables.append((vname, vals, a))
        for k, v in enumerate(vals):
            img[a + k] = v % 65536
    n = rng.randint(0, 14)
    used = sum(len(v_[1]) for v_ in variables)
    while used > size - 1 and variables:  # the generated program must fit
        nm_, vals_, a_ = variables.pop()
        used -= len(vals_)
        for k_ in range(len(vals_)):
            img.pop(a_ + k_, None)
        nv -= 1
    arrays = sum(1 for v_ in variables if len(v_[1]) > 1)
    n = min(n, size - used)
    if tight and size <= 64:
        n = max(0, size - used - rng.choice([0, 0, 1]))  # exactly / almost full; stand-alone labels occupy nothing
    labels = ["L%d" % i if rng.random() < 0.7 else "lab_%d_x" % i for i in range(rng.randint(0, 3))]
    if labels and rng.random() < 0.08 and not any(v_[0].lower() in ("zro", "nop", "add") for v_ in variables):
        labels[0] = rng.choice(["zro", "Nop", "ADD"])
    pos = {l: rng.randint(0, n) for l in labels}
    sym = dict(pos)
    sym.update({nm: a for nm, _, a in variables})
    words, lines = [], []
    refs = 0
    for i in range(n):
        here = [l for l in labels if pos[l] == i]
        pre = ""
        for l in here:
            if l == here[-1] and rng.random() < 0.5:
                pre = l + ": "
            else:
                lines.append(rng.choice(["", " ", "\t"]) + l + ":" + rng.choice(["", " # label", " # label #1"]))
        if rng.random() < 0.15:
            lines.append(rng.choice(["", "   ", "# comment", "  # BRZ 5"]))
        if rng.random() < 0.65:
            m = rng.choice(MNEMONICS[:8])
            if rng.random() < 0.45 and sym:
                s = rng.choice(sorted(sym))
                addr, t = sym[s], s
                refs += 1
            else:
                addr = rng.choice([0, 1, min(4095, size - 1), rng.randrange(min(4096, size))])
                t = rng.choice([str(addr), "0x%x" % addr, "0x%03X" % addr, "0x%04x" % addr, "%04d" % addr, "0%d" % addr])
            words.append((MNEMONICS.index(m) << 12) | (addr % 4096))
            lines.append(rng.choice(["", " ", "\t", "    "]) + pre + case_of(m) + " " + t + rng.choice(["", " # c", "   ", " # element #2", " ## x", " # a # b #", ' # "q"', " # it's"]))
        else:
            m = rng.choice(MNEMONICS[8:])
            words.append(MNEMONICS.index(m) << 12)
            lines.append(rng.choice(["", "  "]) + pre + case_of(m) + rng.choice(["", " #x", " #x #y", "#"]))
    for l in labels:
        if pos[l] == n:
            lines.append(l + ":")
    dl = [rng.choice(["", "    "]) + "%s: .word " % nm + rng.choice([", ", ",", " , "]).join(rng.choice([str(v), hex(v), "%06d" % v]) for v in vals) + rng.choice(["", "", " # v", " # v #2"]) for nm, vals, a in variables]
    if dl:
        text = "\n".join([".data"] + dl + [".text"] + lines) if rng.random() < 0.5 else "\n".join(([".text"] if rng.random() < 0.5 else []) + lines + [".data"] + dl)
    else:
        text = "\n".join(([".text"] if rng.random() < 0.3 else []) + lines)
    # line ends: LF, CR LF or CR only - a text is a sequence of lines whatever separates them
    text = text.replace("\n", rng.choice(["\n", "\n", "\n", "\r\n", "\r"]))
    exp = dict(img)
    exp.update({i: w for i, w in enumerate(words)})
    case = {"kind": "asm", "text": text, "image": {str(a): v for a, v in exp.items()}, "max_pc": n - 1, "stats": {"vars": nv, "refs": refs, "arrays": arrays}}
    if size != 4096:
        case["size"] = size
    return case


def run_asm_case(case, res):
    from architecture_simulator.simulation.toy_simulation import ToySimulation

    # ToySimulation(unified_memory_size=N): "top of memory" is N-1
    s = ToySimulation(case["size"]) if case.get("size") else ToySimulation()
    if case.get("size"):
        res.count("sources_with_other_memory_size")
    if case.get("overfull"):
        # instructions and data need more words than the memory has: "the dedicated memory-size error for a program
        # that does not fit" - accepting it means one word is instruction i and a data variable at the same time
        from architecture_simulator.isa.parser_exceptions import MemorySizeException
        from architecture_simulator.uarch.memory.memory import MemoryAddressError

        res.count("overfull_sources")
        try:
            s.load_program(case["text"])
        except (MemorySizeException, MemoryAddressError):
            return
        except Exception as e:
            res.violation("C15", "untyped-load-error", "TOY source that does not fit (memory size %d, by %d words) raised %r" % (case["size"], case["overfull"], e), case)
            return
        res.violation("C19", "overfull-accepted", "memory size %d, the source needs %d words more (instructions + data) but was accepted: instruction i is not at address i or a variable is not where it was declared" % (case["size"], case["overfull"]), case)
        return
    try:
        s.load_program(case["text"])
        if case.get("again"):
            # the editor assembles the same source again and again into the same simulation (same labels, same
            # variable names); every assembly must place the same image
            res.count("sources_assembled_twice_on_one_simulation")
            # (memory scribbled over in between, no cycle executed: the second assembly places the image again)
            from fixedint import UInt16 as _U16

            top_ = (case.get("size") or 4096) - 1
            for a_ in (0, 1, top_, top_ - 1):
                if 0 <= a_ <= top_:
                    s.state.memory.write_halfword(a_, _U16(0x5A5A))
            s.load_program(case["text"])
            if len(case["text"]) % 2:
                # ... and a third time, after the second image was executed for a while (and scribbled on again)
                for _ in range(12):
                    if s.is_done():
                        break
                    try:
                        s.step()
                    except Exception:
                        break
                for a_ in (0, 2, top_):
                    if 0 <= a_ <= top_:
                        s.state.memory.write_halfword(a_, _U16(0xA5A5))
                s.load_program(case["text"])
                res.count("sources_assembled_three_times_with_execution_in_between")
    except Exception as e:
        res.violation("C19", "load-failed", "well-formed TOY source failed to load (memory size %s%s): %r" % (case.get("size", 4096), ", second assembly on the same simulation" if case.get("again") else "", e), case)
        return
    res.count("sources_compared")
    exp = {int(a): v for a, v in case["image"].items()}
    bad = []
    for a in set(exp) | set(s.state.memory.memory_file):
        got = int(s.state.memory.read_halfword(a))
        if got != exp.get(a, 0):
            bad.append((a, got, exp.get(a, 0)))
    if bad or s.state.max_pc != case["max_pc"]:
        res.violation("C19", "image-mismatch", "memory image (addr, real, expected) %s; max_pc real=%r expected=%r" % (sorted(bad)[:5], s.state.max_pc, case["max_pc"]), case)
        return
    st = case["stats"]
    res.count("label_refs", st["refs"])
    res.count("array_vars", st["arrays"])
    if st["vars"] and st["refs"] and st["arrays"]:
        res.nontrivial(h64(case["text"]))


DOCS = [
    (
        "sum 1..n",
        "# computes the sum of the numbers from 1 to n\n.data\n    n: .word 10 # enter n here\n    result: .word 0\n.text\n    LDA n # skip to the end if n=0\n    BRZ end\n    loop:\n        LDA result\n        ADD n\n        STO result\n        LDA n\n        DEC\n        STO n\n        BRZ end\n        ZRO\n        BRZ loop\n    end:\n",
        {4094: 55, 4095: 0},
    ),
    (
        "self-modifying load",
        "# store second value of my_tuple in my_value\n.data\n    my_tuple: .word 3, 4\n    my_value: .word 0\n.text\n    LDA my_load_instruction     # load 'LDA my_tuple' (LDA 0xFFE) into accu\n    INC                         # increment address in LDA instruction\n    STO my_load_instruction     # store 'LDA 0xFFF' at my_load_instruction\n    my_load_instruction:        # this label points to the memory location of LDA instruction\n    LDA my_tuple                # actually load data at my_tuple + 1 (=0xFFF)\n    STO my_value                # store value of second tuple entry at my_value (0xFFD)\n",
        {0xFFD: 4, 0xFFE: 3, 0xFFF: 4, 3: 0x1FFF},
    ),
    (
        "array compare",
        ".data\n    my_array: .word 7, 0x00F, 3 # my_array points to the address of the first element of the array\n    my_var: .word 7\n    my_result: .word 0\n.text\n    LDA my_array\n    SUB my_var\n    BRZ true\n    ZRO\n    BRZ end\n    true:\n        INC\n        STO my_result\n    end:",
        {4093: 7, 4094: 15, 4095: 3, 4092: 7, 4091: 1},
    ),
    ("label loop", "loop:\n    LDA 0x400\n    DEC\n    STO 0x400\n    BRZ end\n    ZRO\n    BRZ loop\nend:\n", {0x400: 0}),
]


def run_docs(res):
    for name, text, expect in DOCS:
        case = {"kind": "doc", "name": name, "text": text}
        s = new_sim(text)
        if name == "label loop":
            poke(s, 0x400, 3)
        k = 0
        while not s.is_done() and k < 2000:
            s.step()
            k += 1
        res.count("doc_examples")
        res.evaluations += 1
        bad = [(a, int(s.state.memory.read_halfword(a)), v) for a, v in expect.items() if int(s.state.memory.read_halfword(a)) != v]
        if bad or not s.is_done():
            res.violation("C19", "doc-example", "documented example '%s': (addr, real, documented) %s done=%r" % (name, bad, s.is_done()), case)
        else:
            res.nontrivial(h64(text))


def run_encode(res):
    from architecture_simulator.isa.toy.toy_instructions import ToyInstruction, instruction_map

    for w in range(1 << 16):
        i = ToyInstruction.from_integer(w)
        m, a = decode_word(w)
        res.count("words_round_tripped")
        ok = i.mnemonic == m and type(i) is instruction_map[m]
        if m in ADDRESS_TYPE:
            ok = ok and i.address == a
        e = int(i)
        j = ToyInstruction.from_integer(e)
        ok = ok and 0 <= e < 65536 and (e >> 12) == MNEMONICS.index(m) and j == i and type(j) is type(i) and int(j) == e
        if (w >> 12) <= 12:
            ok = ok and e == w
            res.nontrivial(w)
        if not ok:
            res.violation("C19", "encoding", "word %#06x decodes to %r (address %r), encodes to %#06x, which decodes to %r" % (w, i, getattr(i, "address", None), e, j), {"kind": "word", "word": w})
            return
        if (w >> 12) < 8:
            # 'equal' must mean something: address-type instructions that differ in the opcode or in the address
            # are different instructions (non-address opcodes and the NOP aliases legitimately ignore low bits)
            res.count("inequalities_checked")
            # ... and an address-type instruction is no instruction without an address (same low bits, opcodes 8, 12, 13)
            for w2 in (w ^ 1, w ^ 0x800, (w ^ 0x1000) & 0x7FFF, (w & 0xFFF) | 0x8000, (w & 0xFFF) | 0xC000, (w & 0xFFF) | 0xD000):
                if ToyInstruction.from_integer(w2) == i or i == ToyInstruction.from_integer(w2):
                    res.violation("C19", "equality-too-weak", "the instructions decoded from %#06x and %#06x compare equal" % (w, w2), {"kind": "word", "word": w})
                    return
    # the instructions without an address differ from each other by their opcode (13..15 are NOP aliases)
    for op in range(8, 13):
        for op2 in range(8, 14):
            res.count("inequalities_checked")
            if op != op2 and not (op >= 12 and op2 >= 12) and (ToyInstruction.from_integer(op << 12) == ToyInstruction.from_integer((op2 << 12) | 5)):
                res.violation("C19", "equality-too-weak", "the instructions decoded from %#06x and %#06x compare equal" % (op << 12, (op2 << 12) | 5), {"kind": "word", "word": op << 12})
                return
    res.evaluations += 1 << 16
    # every assembler-constructible instruction: opcode in the top four bits, address in the low twelve
    for m in MNEMONICS:
        cls = instruction_map[m]
        for a in range(4096) if m in ADDRESS_TYPE else [None]:
            i = cls(address=a) if a is not None else cls()
            e = int(i)
            j = ToyInstruction.from_integer(e)
            res.count("instructions_round_tripped")
            if (e >> 12) != MNEMONICS.index(m) or (a is not None and (e & 0xFFF) != a) or not (j == i) or type(j) is not cls:
                res.violation("C19", "encoding", "%r encodes to %#06x which decodes to %r" % (i, e, j), {"kind": "instr", "m": m, "a": a})
                return
    # operands beyond 12 bits (constructor or literal): however the address is reduced, the word stays a 16-bit
    # word whose top four bits are the opcode
    for m in MNEMONICS:  # (the classes without an operand accept and keep address bits, too)
        cls = instruction_map[m]
        for a in (4096, 4097, 4101, 0x1003, 0x1FFF, 0x8000, 0xFFFF, 0x10000, 0x12345, 70000):
            i = cls(address=a)
            e = int(i)
            res.count("over_wide_operands_encoded")
            if not (0 <= e < 65536) or (e >> 12) != MNEMONICS.index(m) or not (ToyInstruction.from_integer(e) == i):
                res.violation("C19", "encoding", "%s(address=%d) encodes to %#x: not a 16-bit word with opcode %d in the top four bits / does not decode back to an equal instruction" % (m, a, e, MNEMONICS.index(m)), {"kind": "instr", "m": m, "a": a})
                return
    res.exhaustive = True
    res.extra["exhaustive_space"] = "all 65536 words and all 8*4096+5 assembler-constructible instructions"


# ------------------------------------------------------------------------------------------ C20


def snapshot(sim):
    st = sim.state
    pm = st.performance_metrics
    li = st.loaded_instruction
    return (
        int(st.accu),
        int(st.program_counter),
        tuple(sorted((a, int(v)) for a, v in st.memory.memory_file.items() if int(v))),
        None if li is None else int(li),
        st.address_of_current_instruction,
        st.address_of_next_instruction,
        pm.instruction_count,
        pm.cycles,
        pm.branch_count,
        bool(sim.is_done()),
        repr(sim.get_memory_table_entries()),
        repr(sim.get_toy_svg_update_values()),
        repr(sim.get_register_representations()),
        sim.has_started,
    )


SNAP_NAMES = ["accu", "pc", "memory", "loaded instruction", "address of current instruction", "address of next instruction", "instruction count", "cycles", "branch count", "done", "memory table", "svg values", "register representations", "has_started"]


def run_halves_case(case, res):
    from architecture_simulator.simulation.runtime_errors import StepSequenceError

    if case.get("abandoned"):
        # both twins are machines that were left in the MIDDLE of an instruction of another program (only its first half
        # was executed) before the program of this case was loaded into them
        def _abandoned():
            s_ = new_sim("INC\nDEC\nINC")
            s_.first_cycle_step()
            return s_

        A, refA = setup(case, _abandoned())
        B, _ = setup(case, _abandoned())
        res.count("loaded_into_machine_abandoned_mid_instruction")
    else:
        A, refA = setup(case)
        B, _ = setup(case)
    # run() on a non-terminating program would never return: the reference decides termination first
    k = 0
    while not refA.done and k < 400:
        refA.step()
        k += 1
    terminates = refA.done
    due = 1
    nB = 0
    kinds = set()
    for idx, call in enumerate(case["calls"]):
        if call == "run" and not terminates:
            continue
        done = A.is_done()
        before = snapshot(A)
        legal = True
        if not done:
            legal = {"step": due == 1, "first": due == 1, "second": due == 2, "single": True, "run": due == 1}[call]
        f = {"step": A.step, "first": A.first_cycle_step, "second": A.second_cycle_step, "single": A.single_step, "run": A.run}[call]
        decoy_toy_touch()  # another live machine executes half a cycle between any two calls on the twins
        try:
            if call == "run":
                with_alarm(15, f)
            else:
                f()
            raised = None
        except AlarmTimeout:
            # the reference machine terminates, run() does not: an execution defect (C06), not a sequencing one
            res.violation("C06", "run-does-not-terminate", "run() did not return within 15 s on a program the reference machine finishes", case)
            return
        except StepSequenceError as e:
            raised = e
        except Exception as e:
            res.violation("C20", "wrong-error", "call #%d %s raised %r" % (idx, call, e), case)
            return
        if done:
            res.count("calls_after_done")
            # no-op once done.  (step() in the middle of an instruction cannot occur when done.)
            if raised is not None or snapshot(A) != before:
                res.violation("C20", "not-noop-when-done", "call #%d %s after done: raised=%r, snapshot changed=%r" % (idx, call, raised, snapshot(A) != before), case)
                return
            continue
        if not legal:
            res.count("illegal_calls_checked")
            kinds.add("illegal")
            if raised is None:
                res.violation("C20", "illegal-call-accepted", "call #%d %s with half %d due did not raise StepSequenceError" % (idx, call, due), case)
                return
            after = snapshot(A)
            if after != before:
                res.violation("C20", "illegal-call-changed-state", "call #%d %s raised but changed: %s" % (idx, call, [SNAP_NAMES[i] for i in range(len(before)) if before[i] != after[i]]), case)
                return
            continue
        if raised is not None:
            res.violation("C20", "legal-call-rejected", "call #%d %s with half %d due raised %r" % (idx, call, due, raised), case)
            return
        kinds.add(call)
        if call == "first":
            due = 2
            res.count("first_halves")
        elif call == "second":
            due = 1
            res.count("second_halves")
        elif call == "single":
            due = 2 if due == 1 else 1
            res.count("single_steps")
        elif call == "run":
            res.count("runs")
        if due == 1:
            # instruction boundary: bring the twin (whole steps only) to the same instruction count
            target = A.state.performance_metrics.instruction_count
            guard = 0
            while B.state.performance_metrics.instruction_count < target and not B.is_done() and guard < 100000:
                B.step()
                guard += 1
            res.count("boundary_snapshots_compared")
            sa, sb = snapshot(A), snapshot(B)
            if sa != sb:
                res.violation("C20", "boundary-mismatch", "after call #%d %s (instruction %d): differs from the twin driven by step() only in %s" % (idx, call, target, [SNAP_NAMES[i] for i in range(len(sa)) if sa[i] != sb[i]]), case)
                return
    if {"first", "second", "single", "illegal"} <= kinds:
        res.nontrivial(h64(case))


def run_fault_halves_case(case, res):
    """a machine with a smaller memory: an operand, store target or branch target beyond it makes an instruction FAIL.
    Whole steps and half-cycle calls are the same execution there too: after a failing whole step() the state is either
    the state before the instruction (an all-or-nothing step) or exactly the state the two half-cycle calls leave -
    never a third one - and up to that point the boundary snapshots agree."""
    from architecture_simulator.simulation.toy_simulation import ToySimulation

    sims = []
    for _ in range(2):
        s_ = ToySimulation(unified_memory_size=case["size"])
        s_.load_program(case["text"])
        sims.append(s_)
    A, B = sims
    for k in range(case["max_steps"]):
        if A.is_done() or B.is_done():
            break
        try:
            pre = snapshot(A)
        except Exception:
            return
        ea = eb = None
        try:
            A.step()
        except Exception as e:
            ea = e
        try:
            B.first_cycle_step()
            B.second_cycle_step()
        except Exception as e:
            eb = e
        try:
            sa, sb = snapshot(A), snapshot(B)
        except Exception:
            res.count("fault_halves_unobservable")
            return
        if ea is None and eb is None:
            res.count("boundary_snapshots_compared")
            if sa != sb:
                res.violation("C20", "boundary-mismatch", "memory of %d words, after instruction %d: step() and first/second half differ in %s" % (case["size"], k + 1, [SNAP_NAMES[i] for i in range(len(sa)) if sa[i] != sb[i]]), case)
                return
            continue
        res.count("failing_instructions_compared")
        if (ea is None) != (eb is None):
            res.violation("C20", "boundary-mismatch", "memory of %d words, instruction %d: step() %s, the two half-cycle calls %s" % (case["size"], k + 1, "raised %r" % ea if ea else "succeeded", "raised %r" % eb if eb else "succeeded"), case)
            return
        if sa != pre and sa != sb:
            res.violation("C20", "failing-step-third-state", "memory of %d words, instruction %d fails (%s): step() leaves neither the state before the instruction nor the state the half-cycle calls leave; differs from the latter in %s" % (case["size"], k + 1, type(ea).__name__, [SNAP_NAMES[i] for i in range(len(sa)) if sa[i] != sb[i]]), case)
            return
        # trying again: the whole-step machine must not execute a half a second time
        if sa == sb:
            try:
                A.step()
            except Exception:
                pass
            try:
                B.step()
            except Exception:
                pass
            try:
                sa, sb = snapshot(A), snapshot(B)
            except Exception:
                return
            if sa != sb:
                res.violation("C20", "failing-step-third-state", "memory of %d words: step() retried after the failure of instruction %d differs between the twins in %s" % (case["size"], k + 1, [SNAP_NAMES[i] for i in range(len(sa)) if sa[i] != sb[i]]), case)
        return


def gen_fault_halves(rng):
    size = rng.choice([16, 24, 32, 64])
    n = rng.randint(1, 6)
    ops = ["LDA", "ADD", "SUB", "OR", "AND", "XOR", "STO", "BRZ", "INC", "DEC", "ZRO", "NOT", "NOP"]
    lines = []
    for i in range(n):
        m = rng.choice(ops)
        if m in ops[:8]:
            a = rng.choice([rng.randrange(size), rng.randrange(size), size, size + 1, 4095, rng.randrange(size, 4096)])
            if m == "BRZ" and rng.random() < 0.5:
                lines.append("ZRO")
            lines.append("%s %d" % (m, a))
        else:
            lines.append(m)
    return {"kind": "fault_halves", "size": size, "text": "\n".join(lines[: size - 1]), "max_steps": 20}


def gen_calls(rng, n):
    out = []
    due = 1
    for _ in range(n):
        if rng.random() < 0.25:
            c = rng.choice(["step", "first", "second", "single", "run"] if rng.random() < 0.1 else ["step", "first", "second"])
        else:
            c = rng.choice(["step", "first", "single"] if due == 1 else ["second", "single", "second"])
        if c == "run" and rng.random() < 0.7:
            c = "single"
        out.append(c)
        legal = {"step": due == 1, "first": due == 1, "second": due == 2, "single": True, "run": due == 1}[c]
        if legal:
            due = {"step": 1, "first": 2, "second": 1, "single": 3 - due, "run": 1}[c]
    return out + ["run", "step", "first", "second", "single", "run"]


# ------------------------------------------------------------------------------------------ driver


def run_case(prop, case, res, sim=None):
    if case.get("kind") == "longrun":
        return run_longrun_case(case, res)
    k = case["kind"]
    if k == "exec":
        ref = run_exec_case(case, res, sim)
        if ref is not None and case.get("selfmod"):
            res.count("selfmod_%s_reexecuted" % case["selfmod"], 1 if ref.executed_overwritten else 0)
        if ref is not None and (ref.executed_overwritten or case.get("single_word")):
            res.nontrivial(h64(case))
    elif k == "asm":
        run_asm_case(case, res)
    elif k == "halves":
        run_halves_case(case, res)
    elif k == "fault_halves":
        run_fault_halves_case(case, res)
    elif k in ("word", "instr"):
        run_encode(res)
    elif k == "doc":
        run_docs(res)


LONGRUN_TEXT = ".data\nci: .word 0\nco: .word 300\nini: .word 600\n.text\nouter:\nLDA ini\nSTO ci\ninner:\nLDA ci\nDEC\nSTO ci\nBRZ next\nZRO\nBRZ inner\nnext:\nLDA co\nDEC\nSTO co\nBRZ end\nZRO\nBRZ outer\nend:\nNOP"


def run_longrun_case(case, res):
    """a nested counting loop of about 1.08 million instructions executed by ONE run() call with nothing attached: the
    machine stops when the program does, not before"""
    sim = new_sim(LONGRUN_TEXT)
    ref = RefToy({a: int(v) for a, v in sim.state.memory.memory_file.items()}, sim.state.max_pc, 0)
    while not ref.done and ref.n < 3_000_000:
        ref.step()
    try:
        with_alarm(300, sim.run)
    except AlarmTimeout:
        res.violation("C06", "run-does-not-terminate", "run() did not return within 300 s of CPU time on a program of %d instructions" % ref.n, case)
        return
    res.count("long_runs")
    res.count("long_run_instructions", ref.n)
    if compare(sim, ref, res, case, "after one run() of %d instructions" % ref.n):
        res.nontrivial(h64(case))


def run_shard(spec, res):
    prop = spec["prop"]
    rng = rng_for(prop, spec["tier"], spec["seed"], spec["kind"], spec["shard"])
    k = spec["kind"]
    if k == "longrun":
        guarded(run_case, prop, {"kind": "longrun"}, res)
        res.evaluations += 1
        return
    if k == "words":
        from architecture_simulator.simulation.toy_simulation import ToySimulation

        reused = ToySimulation()
        for w in range(spec["lo"], spec["hi"]):
            for c in range(spec["combos"]):
                acc = ACCS[(w + c) % 5] if c < 5 else rng.getrandbits(16)
                cell = [0, 1, 0xFFFF, w][(w // 5 + c) % 4] if c < 8 else rng.getrandbits(16)
                pokes = {"1": w}
                a = w & 0xFFF
                if a not in (0, 1):
                    pokes[str(a)] = cell
                case = {"kind": "exec", "text": "NOP\nNOP", "pokes": pokes, "acc": acc, "max_steps": 6, "single_word": (w >> 12) != 12, "w0": 0xC000, "L": 2}
                # every 3rd word runs on ONE re-used simulation object (load_program again and again, as the web UI does)
                if w % 3 == 0:
                    res.count("loads_into_reused_simulation")
                    guarded(lambda p, c, r: run_case(p, c, r, reused), prop, case, res)
                else:
                    guarded(run_case, prop, case, res)
                res.evaluations += 1
                res.count("single_word_cases")
        res.exhaustive = True
        res.extra["exhaustive_space"] = "every 16-bit word as the second instruction x %d accumulator/operand combination(s)" % spec["combos"]
        res.sample({"kind": "exec", "text": "NOP\\nNOP", "pokes": {"1": spec["lo"] + 7}, "note": "one of 4096 words of this shard"}, 1)
    elif k == "progs":
        from architecture_simulator.simulation.toy_simulation import ToySimulation

        reused = ToySimulation()
        # another simulation with a non-default memory size lives in the same process (the machine under test
        # keeps its documented 4096 words)
        other = ToySimulation(rng.choice([32, 48, 100]))
        other.load_program(gen_source(rng, 32)["text"])
        res.count("other_sized_simulation_in_process")
        for it in range(spec["n"]):
            case = gen_selfmod_case(rng) if rng.random() < 0.3 else gen_prog_case(rng)
            if rng.random() < 0.12:
                case = gen_restore_case(rng)
                res.count("save_patch_restore_programs")
            elif rng.random() < 0.25:
                # whole sources (stand-alone / in-line labels, comments, data before or after the text) executed:
                # "execution stops exactly when the program counter passes the last assembled instruction"
                src = gen_source(rng)
                case = {"kind": "exec", "text": src["text"], "pokes": {}, "acc": rng.choice([0, 1, 0xFFFF, rng.getrandbits(16)]), "max_steps": 150, "img": src["image"], "maxpc": src["max_pc"]}
                res.count("assembled_sources_executed")
            if it % 4 == 0:
                guarded(run_case, prop, case, res)
            else:
                # re-used simulation object; the same text is loaded several times in a row with different pokes
                for rep in range(rng.choice([1, 1, 3])):
                    c2 = dict(case, acc=(case["acc"] + rep) & 0xFFFF)
                    res.count("loads_into_reused_simulation")
                    guarded(lambda p, c, r: run_case(p, c, r, reused), prop, c2, res)
            res.evaluations += 1
            res.count("program_cases")
            if it < 1:
                res.sample(case, 3)
    elif k == "full":
        # a full 4096-instruction program: pc wraps from 4095 to 0
        text = "\n".join(["INC"] * 4095 + ["BRZ 4000"])
        case = {"kind": "exec", "text": text, "pokes": {}, "acc": 0xFFFF - 4094, "max_steps": 4300}
        guarded(run_case, prop, case, res)
        res.evaluations += 1
        res.count("program_cases")
    elif k == "encode":
        run_encode(res)
    elif k == "docs":
        run_docs(res)
    elif k == "asm":
        if spec["shard"] == 0:
            # a memory filled by data down to address 0 (no instructions at all) still fits
            for sz in (16, 24, 64):
                vals = [(7 * i + 1) % 65536 for i in range(sz)]
                case = {"kind": "asm", "text": ".data\nfull: .word " + ", ".join(str(v) for v in vals), "image": {str(i): v for i, v in enumerate(vals)}, "max_pc": -1, "stats": {"vars": 1, "refs": 0, "arrays": 1}, "size": sz}
                res.count("memory_full_of_data")
                guarded(run_case, prop, case, res)
        for it in range(spec["n"]):
            sz = rng.choice([4096, 4096, 4096, 4096, 64, 256, 1000, 2048, 5000, 16, 24, 64])
            case = gen_source(rng, sz, tight=sz <= 64 and rng.random() < 0.6)
            if rng.random() < 0.3:
                case["again"] = True
            if sz <= 64 and rng.random() < 0.25:
                # the same kind of source, one or two instructions too long for the memory
                used_ = len(case["image"])
                extra_ = sz - used_ + rng.choice([1, 1, 2])
                case = dict(case, text=case["text"] + "\n" + "\n".join(["INC"] * extra_) if ".data" not in case["text"].split(".text")[-1] else case["text"], overfull=used_ + extra_ - sz)
                if case["text"].count("INC") < extra_ or ".data" in case["text"].split(".text")[-1]:
                    case.pop("overfull")
                case.pop("again", None)
            if sz <= 64:
                res.count("tight_memory_sources")
            guarded(run_case, prop, case, res)
            res.evaluations += 1
            if it < 1:
                res.sample(case, 3)
    elif k == "halves":
        for it in range(spec["n"]):
            case = gen_selfmod_case(rng) if rng.random() < 0.2 else gen_prog_case(rng)
            if rng.random() < 0.06:
                # done before any instruction runs: every call is a no-op
                case = {"text": rng.choice(["", "# nothing", ".data\nv: .word 3, 4", "\n\n"]), "pokes": {}, "acc": 0, "max_steps": 5}
                res.count("empty_program_call_strings")
                if rng.random() < 0.4:
                    case["abandoned"] = True
            elif rng.random() < 0.05:
                case["abandoned"] = True
            case["kind"] = "halves"
            case["calls"] = gen_calls(rng, rng.randint(4, 60))
            guarded(run_case, prop, case, res)
            res.evaluations += 1
            if it < 1:
                res.sample(case, 3)
            if it % 8 == 0:
                guarded(run_case, prop, gen_fault_halves(rng), res)
                res.evaluations += 1
