"""Engine `lifecycle` - C13 (done is stable, run == stepping, reload == fresh load) and C16 (inspection is pure).

Twin objects driven through wrappers at the Simulation API; compared on the observable snapshot
(vp/snapshot.py) and on behavioural continuation."""
from ..common import guarded, rng_for, h64, make_riscv, M32, with_alarm, AlarmTimeout
from ..snapshot import riscv_snapshot, toy_snapshot, diff_names, INSPECT_RISCV, INSPECT_TOY, call_inspection, call_toy_inspection
from ..gen import progs as G
from ..gen import asm_rv as A
from .icache import asm_text as _asm_text


def asm_text(prog):
    """assembler text of a generated program; every program of this engine defines the same label names (on a line of
    their own, in-line, at the end): what one load defined must be gone for the next one"""
    lines = _asm_text(prog).split("\n") if prog else []
    if len(lines) >= 2:
        lines[len(lines) // 2] = "mid_: " + lines[len(lines) // 2]
    return "\n".join(["main:"] + lines + ["fin_:"])

RULE = {
    "C13": "three simulation kinds (single-cycle, five-stage with random cache configurations and hazard flag, TOY) x programs ending by fall-through, jump outside the program, exit ecall with younger instructions in flight, fault, or empty text x load histories of 0-5 earlier well-formed and malformed loads; "
    "monitors: snapshot unchanged by step()/run() after done, step() return value == not is_done(), run() twin == step-loop twin, reloaded twin == fresh twin in snapshot and in every later step. "
    "non-trivial = case with a non-empty load history containing a failed load, or a terminal pipeline state reached through an exit ecall / jump outside; distinct by case hash.",
    "C16": "twin A calls random subsets/repetitions of every inspection function between steps, twin B is stepped by a parent process that NEVER executes inspection code; at comparison points (every step / every k-th step / only at the end) a freshly forked child inspects B once and the snapshot is compared with A's (recorded in its own forked child), the two snapshots calling the inspection functions in independent random orders; both RISC-V modes x random D/I cache configurations x hazard flag, and TOY incl. between half cycles. "
    "non-trivial = run with a cache enabled and >=1 miss after an inspection burst (TOY: >=1 burst between half cycles); distinct by case hash.",
}
ASSUMPTIONS = {
    "C13": ["'same state' = observable snapshot (all public inspection results, wall-clock lines removed) + continuation", "faulting programs are only used for load histories and step-return checks (a simulation that raised is not claimed to be done)"],
    "C16": ["inspection functions = the list in vp/snapshot.py (register, data-memory, instruction, cache tables, cache statistics, visualisation update lists, performance-metric text, output, exit code, done, has-instructions)"],
}
REQUIRED = {
    "C13": ["extra_steps_after_done", "extra_runs_after_done", "step_returns_checked", "run_vs_step_twins", "empty_programs", "reload_twins", "failed_loads_in_history", "continuation_steps", "toy_cases", "five_cases", "single_cases", "exit_ecall_terminals", "jump_outside_terminals", "final_load_fails_twins", "interleaved_loads", "loads_after_start"],
    "C16": ["inspection_calls", "snapshots_compared", "blind_twin_joins", "cache_misses_after_burst", "toy_half_cycle_bursts", "five_cases", "single_cases", "toy_cases"],
}

BAD_TEXTS_RV = ["addi x1, x0", "foo bar", ".data\nv: .word 1\nw: .wrd 2\n.text\nnop", ".data\nv: .word 1, 2, 3\n.text\nlw x1, nope", "beq x0, x0, nowhere", "addi x1, x0, 1\n.text\n.text", "jal x0, 3", ".data\nq: .byte 1\nq: .byte 2", "L: nop\nL: nop", "li x1,", ".data\nz: .zero 4\ny: .half 1, 2\n.text\nla x1, y[1]\nsw x1, z[9999], x99"]
BAD_TEXTS_TOY = ["FOO", "LDA", "ADD 0x", ".data\nv: .word 1\n.text\nLDA nope", "L:\nL:\nNOP", ".data\nv: .word 1, 2\nv: .word 3\n.text\nNOP", "STO 1 2", ".data\nNOP", "INC\n.text\n.text"]


def plan(prop, tier, seed):
    q = tier == "quick"
    if prop == "C13":
        return [{"kind": "directed", "shard": 0}] + [{"kind": "life", "n": 45 if q else 1300, "shard": i} for i in range(14 if q else 16)]
    return [{"kind": "pure", "n": 28 if q else 500, "shard": i} for i in range(15 if q else 16)] + [{"kind": "longout", "n": 1, "shard": 0}]


def rand_cache(rng, data=True):
    if rng.random() < 0.35:
        return None
    policy = rng.choice(["lru", "plru"])
    c = {"ib": rng.choice([0, 0, 1, 2]), "bb": rng.choice([0, 1, 2]), "assoc": rng.choice([1, 2, 4] if policy == "plru" else [1, 2, 3]), "policy": policy, "pen": rng.choice([0, 2, 9])}
    if data:
        c["wt"] = rng.random() < 0.5
    return c


def gen_rv_program(rng, allow_fault=False):
    """(instruction list, regs, terminal kind) - accesses stay within one word (valid with a data cache)"""
    k = rng.random()
    if k < 0.08:
        return [], {}, "empty"
    if k < 0.5:
        prog, regs = G.structured_program(rng, size=rng.randint(3, 25), aligned=True, faults=allow_fault and rng.random() < 0.3)
        kind = "exit_ecall" if any(d["m"] == "ecall" for d in prog[-4:]) else "jump_outside"
        return prog, regs, kind
    prog = G.soup_program(rng, rng.randint(1, 18), aligned=True)
    return prog, G.soup_regs(rng, bad_ecall=0.1 if allow_fault else 0.0), "soup"


def prog_text(prog, regs):
    """assembler text: li for the initial registers, then the program (so that load_program is the entry)"""
    lines = []
    return asm_text(prog)


def make_sim(kind, cfg):
    if kind == "toy":
        from architecture_simulator.simulation.toy_simulation import ToySimulation

        return ToySimulation()
    if cfg.get("via_state"):
        # the other public way to build a simulation: an explicitly constructed architectural state handed to
        # RiscvSimulation(state=...), the mode argument left at its default or matching
        from architecture_simulator.simulation.riscv_simulation import RiscvSimulation
        from architecture_simulator.uarch.riscv.riscv_architectural_state import RiscvArchitecturalState
        from ..common import cache_options

        pm = "".join(list("five_stage_pipeline" if kind == "five" else "single_stage_pipeline"))
        st = RiscvArchitecturalState(pipeline_mode=pm, detect_data_hazards=cfg.get("hz", True), data_cache_options=cache_options(cfg.get("dcache")), instruction_cache_options=cache_options(cfg.get("icache")))
        return RiscvSimulation(state=st, mode=pm) if cfg["via_state"] == "matching" else RiscvSimulation(state=st)
    # the twins of one case are built the same way (directly or through the web front end's constructor, chosen per
    # configuration): a defect of one construction path is that path's finding, not a lifecycle / purity difference
    via = "webgui" if h64([kind, cfg.get("hz", True), cfg.get("dcache"), cfg.get("icache")]) % 3 == 0 else "direct"
    sim = make_riscv("five" if kind == "five" else "single", hz=cfg.get("hz", True), dcache=cfg.get("dcache"), icache=cfg.get("icache"), via=via)
    if cfg.get("short_regs"):
        # the register file's documented 'test mode': a caller-supplied list (here shorter than 32 entries)
        import fixedint
        from architecture_simulator.simulation.riscv_simulation import RiscvSimulation
        from architecture_simulator.uarch.riscv.riscv_architectural_state import RiscvArchitecturalState
        from architecture_simulator.uarch.riscv.register_file import RegisterFile

        pm = "".join(list("five_stage_pipeline" if kind == "five" else "single_stage_pipeline"))
        st = RiscvArchitecturalState(pipeline_mode=pm, detect_data_hazards=cfg.get("hz", True), register_file=RegisterFile(registers=[fixedint.UInt32(0) for _ in range(cfg["short_regs"])]))
        return RiscvSimulation(state=st, mode=pm)
    if cfg.get("swap_memories"):
        from architecture_simulator.uarch.memory.memory import Memory, AddressingType
        from architecture_simulator.uarch.memory.instruction_memory import InstructionMemory

        sim.state.memory = Memory(AddressingType.BYTE, 32, True, range(2**14, 2**32))
        sim.state.instruction_memory = InstructionMemory()
    return sim


def snap(kind, sim):
    return toy_snapshot(sim) if kind == "toy" else riscv_snapshot(sim)


def init_regs(kind, sim, regs):
    if kind != "toy" and regs:
        from ..common import set_regs

        set_regs(sim, regs)


def safe_load(sim, text):
    try:
        sim.load_program(text)
        return None
    except Exception as e:
        return e


def run_life_case(case, res):
    kind, cfg = case["sim"], case["cfg"]
    res.count({"toy": "toy_cases", "five": "five_cases", "single": "single_cases"}[kind])
    text = case["text"]
    # ---- reload == fresh load
    fresh = make_sim(kind, cfg)
    e0 = safe_load(fresh, text)
    if e0 is not None and not case.get("final_bad"):
        res.violation("C13", "final-load-failed", "well-formed program failed to load: %r" % (e0,), case)
        return
    hist = make_sim(kind, cfg)
    failed_here = 0
    poke = case.get("poke_steps") or []

    def poke_it():
        # done queries and step() calls between the loads: while no instruction has executed the simulation
        # "has not started", and whatever these calls found (empty memory, a faulting first instruction) must not
        # stick to it
        try:
            hist.is_done()
            hist.step()
            hist.is_done()
        except Exception:
            pass
        res.count("queries_and_steps_between_loads")

    def look():
        # neither must anything the user LOOKED at between the loads (tables, views, statistics) stick: a reload leaves
        # what a fresh load leaves, not what was last shown
        if case.get("look"):
            try:
                snap(kind, hist)
            except Exception:
                pass
            res.count("inspections_between_loads")

    if poke and poke[0]:
        poke_it()
    for hi_, t in enumerate(case["history"]):
        if safe_load(hist, t) is not None:
            res.count("failed_loads_in_history")
            failed_here += 1
        look()
        if hi_ + 1 < len(poke) and poke[hi_ + 1]:
            poke_it()
    if poke and getattr(hist, "has_started", False):
        res.count("history_started_the_simulation")
        return  # an instruction executed: the simulation has started, reload == fresh load is not claimed for it
    e1 = safe_load(hist, text)
    if case.get("final_bad"):
        # the final load itself fails: a failed load, too, must leave the same state as the same failed load into a
        # fresh simulation (whatever an earlier load put there is gone)
        res.count("final_load_fails_twins")
        if type(e0) is not type(e1):
            res.violation("C13", "reload-differs", "the malformed text raises %r in a fresh simulation but %r after the load history" % (e0, e1), case)
            return
        a, b = snap(kind, fresh), snap(kind, hist)
        if a != b:
            res.violation("C13", "reload-differs", "after a FAILED final load the snapshot differs from the same failed load into a fresh simulation in %s" % diff_names(a, b), case)
            return
        # ... and behave the same from there on
        for _ in range(12):
            try:
                r1, r2 = fresh.step(), hist.step()
            except Exception:
                break
            a, b = snap(kind, fresh), snap(kind, hist)
            if r1 is not r2 or a != b:
                res.violation("C13", "reload-continuation-differs", "stepping after a failed final load differs from the fresh twin in %s" % diff_names(a, b), case)
                return
        if failed_here or case["history"]:
            res.nontrivial(h64(case))
        return
    if e1 is not None:
        res.violation("C13", "reload-failed", "program loads into a fresh simulation but not after the load history %r: %r" % (case["history"], e1), case)
        return
    res.count("reload_twins")
    init_regs(kind, fresh, case["regs"])
    init_regs(kind, hist, case["regs"])
    a, b = snap(kind, fresh), snap(kind, hist)
    if a != b:
        res.violation("C13", "reload-differs", "after the load history the snapshot differs from a fresh load in %s" % diff_names(a, b), case)
        return
    if case["terminal"] == "empty":
        res.count("empty_programs")
        if not fresh.is_done():
            res.violation("C13", "empty-not-done", "a program without instructions is not done immediately", case)
            return
    # ---- continuation: step both; step() return value; run twin
    runner = make_sim(kind, cfg)
    safe_load(runner, text)
    init_regs(kind, runner, case["regs"])
    from architecture_simulator.simulation.runtime_errors import InstructionExecutionException

    n = 0
    faulted = False
    while not fresh.is_done() and n < case["max_steps"]:
        try:
            r1 = fresh.step()
        except InstructionExecutionException as e:
            # (any other exception out of step()/is_done() propagates: the simulation must report done, not raise)
            faulted = True
            try:
                hist.step()
                res.violation("C13", "reload-differs", "fresh twin raised %r, reloaded twin did not" % (e,), case)
                return
            except Exception:
                pass
            break
        r2 = hist.step()
        n += 1
        res.count("continuation_steps")
        res.count("step_returns_checked")
        if r1 is not (not fresh.is_done()) or r2 is not (not hist.is_done()):
            res.violation("C13", "step-return", "step() returned %r / %r, is_done() is %r / %r" % (r1, r2, fresh.is_done(), hist.is_done()), case)
            return
        a, b = snap(kind, fresh), snap(kind, hist)
        if a != b:
            res.violation("C13", "reload-continuation-differs", "step %d after the load history differs from the fresh twin in %s" % (n, diff_names(a, b)), case)
            return
    if faulted or not fresh.is_done():
        return  # bound hit or fault: no terminal state to examine
    # ---- run() == step loop
    try:
        with_alarm(20, runner.run)
    except AlarmTimeout:
        res.violation("C13", "run-vs-step", "run() did not return within 20 s although the step loop finished after %d steps" % n, case)
        return
    except Exception as e:
        res.violation("C13", "run-vs-step", "run() raised %r where the step loop completed" % (e,), case)
        return
    res.count("run_vs_step_twins")
    # the stepping twin of this comparison is a third simulation that is stepped WITHOUT any inspection call in
    # between (the twins above are inspected after every step; whether inspections are pure is C16, not C13)
    stepper = make_sim(kind, cfg)
    safe_load(stepper, text)
    init_regs(kind, stepper, case["regs"])
    k_ = 0
    while stepper.step() and k_ < case["max_steps"] + 5:
        k_ += 1
    a, b = snap(kind, stepper), snap(kind, runner)
    if a != b:
        res.violation("C13", "run-vs-step", "run() and the step loop end in different snapshots: %s" % diff_names(a, b), case)
        return
    # ---- done is stable
    if case["terminal"] == "exit_ecall" and kind != "toy" and fresh.state.exit_code is not None:
        res.count("exit_ecall_terminals")
    if case["terminal"] in ("jump_outside", "soup") and kind != "toy":
        res.count("jump_outside_terminals")
    base0 = snap(kind, fresh)
    base = snap(kind, fresh)
    if base0 != base:
        return  # the inspection functions themselves are not idempotent here: C16's business, nothing to judge for C13
    for i, call in enumerate(case["after_done"]):
        try:
            if call == "step":
                r = fresh.step()
                res.count("extra_steps_after_done")
                if r is not False:
                    res.violation("C13", "step-return", "step() after done returned %r" % (r,), case)
                    return
            elif call == "run":
                fresh.run()
                res.count("extra_runs_after_done")
            elif kind == "toy":
                {"first": fresh.first_cycle_step, "second": fresh.second_cycle_step, "single": fresh.single_step}[call]()
        except Exception as e:
            res.violation("C13", "raises-after-done", "%s() after done raised %r" % (call, e), case)
            return
        now = snap(kind, fresh)
        if now != base or not fresh.is_done():
            res.violation("C13", "done-not-stable", "%s() call #%d after done changed %s (is_done=%r)" % (call, i, diff_names(base, now), fresh.is_done()), case)
            return
    if failed_here or case["terminal"] in ("exit_ecall", "jump_outside"):
        res.nontrivial(h64(case))


def run_interleave_case(case, res):
    """arbitrary interleaving of load / step / run calls on ONE simulation (also re-loading after it has started):
    step() must return `not is_done()` after every call; from any point a twin finishing with run() and a twin
    finishing with a step loop must end in the same snapshot; once done, done is stable."""
    import copy

    from architecture_simulator.simulation.runtime_errors import InstructionExecutionException

    kind, cfg = case["sim"], case["cfg"]
    res.count({"toy": "toy_cases", "five": "five_cases", "single": "single_cases"}[kind])
    sim = make_sim(kind, cfg)
    texts = case["texts"]
    for i, (op, arg) in enumerate(case["calls"]):
        where = "call #%d %s" % (i, op)
        try:
            if op == "load":
                safe_load(sim, texts[arg])
                res.count("interleaved_loads")
                if sim.has_started:
                    res.count("loads_after_start")
            elif op == "step":
                for _ in range(arg):
                    r = sim.step()
                    res.count("step_returns_checked")
                    if r is not (not sim.is_done()):
                        res.violation("C13", "step-return", "%s: step() returned %r while is_done() is %r (history: %s)" % (where, r, sim.is_done(), [c[0] for c in case["calls"][: i + 1]]), case)
                        return
            elif op == "fork":
                # twin A finishes with run(), twin B with a step loop
                a_, b_ = copy.deepcopy(sim), copy.deepcopy(sim)
                k = 0
                while not b_.is_done() and k < 600:
                    b_.step()
                    k += 1
                if not b_.is_done():
                    continue  # does not terminate within the bound: run() is not called
                try:
                    with_alarm(20, a_.run)
                except AlarmTimeout:
                    res.violation("C13", "run-vs-step", "%s: run() did not return although the step loop finished after %d steps" % (where, k), case)
                    return
                res.count("run_vs_step_twins")
                sa, sb = snap(kind, a_), snap(kind, b_)
                if sa != sb:
                    res.violation("C13", "run-vs-step", "%s: run() and the step loop end in different snapshots: %s" % (where, diff_names(sa, sb)), case)
                    return
                base = snap(kind, b_)
                for _ in range(2):
                    r = b_.step()
                    b_.run()
                    res.count("extra_steps_after_done")
                    res.count("extra_runs_after_done")
                    now = snap(kind, b_)
                    if r is not False or now != base:
                        res.violation("C13", "done-not-stable", "%s: after done step() returned %r / changed %s" % (where, r, diff_names(base, now)), case)
                        return
        except InstructionExecutionException:
            # a faulting program: nothing is claimed about a simulation that raised a run-time error
            return
    res.nontrivial(h64(case))


def gen_interleave_case(rng):
    kind = rng.choice(["single", "five", "five", "toy"])
    if kind == "toy":
        from . import toy as T

        texts = [T.gen_source(rng)["text"] for _ in range(3)] + ["", ".data\nv: .word 3", rng.choice(BAD_TEXTS_TOY)]
        cfg = {}
    else:
        texts = [asm_text(gen_rv_program(rng)[0]) for _ in range(3)] + ["", ".data\nd: .word 1, 2", rng.choice(BAD_TEXTS_RV), ".data\nd0: .word 7\n.text\nlw x1, d0\nbeq x0, x0, nowhere"]
        cfg = {"hz": rng.random() < 0.8, "dcache": rand_cache(rng), "icache": rand_cache(rng, data=False)}
    calls = [("load", rng.randrange(3))]
    for _ in range(rng.randint(2, 8)):
        k = rng.random()
        if k < 0.45:
            calls.append(("step", rng.choice([1, 1, 2, 3, 7])))
        elif k < 0.75:
            calls.append(("load", rng.randrange(len(texts))))
        else:
            calls.append(("fork", 0))
    calls.append(("step", 2))
    calls.append(("fork", 0))
    return {"kind": "interleave", "sim": kind, "cfg": cfg, "texts": texts, "calls": calls}


def gen_life_case(rng):
    kind = rng.choice(["single", "five", "five", "toy"])
    if kind == "toy":
        from . import toy as T

        src = T.gen_source(rng)
        text = src["text"]
        terminal = "toy"
        if rng.random() < 0.1:
            text = rng.choice(["", "# nothing", ".data\nv: .word 3"])
            terminal = "empty"
        history = [rng.choice(BAD_TEXTS_TOY) if rng.random() < 0.5 else T.gen_source(rng)["text"] for _ in range(rng.choice([0, 1, 2, 3, 5]))]
        if rng.random() < 0.2:
            history.insert(rng.randint(0, len(history)), text)
        toy_poke = None
        if rng.random() < 0.25:
            history = [rng.choice(BAD_TEXTS_TOY + ["", "# nothing", ".data\nv: .word 3, 4"]) for _ in range(rng.randint(0, 4))]
            toy_poke = [rng.random() < 0.7 for _ in range(len(history) + 1)]
        # TOY programs may loop: bound the steps; after_done only reached when done
        if rng.random() < 0.15:
            return {"kind": "life", "sim": "toy", "cfg": {}, "text": rng.choice(BAD_TEXTS_TOY), "regs": {}, "terminal": "bad", "final_bad": True, "history": history or [T.gen_source(rng)["text"]], "max_steps": 10, "after_done": []}
        c_ = {"kind": "life", "sim": "toy", "cfg": {}, "text": text, "regs": {}, "terminal": terminal, "history": history, "max_steps": 300, "after_done": [rng.choice(["step", "run", "first", "second", "single"]) for _ in range(4)]}
        if toy_poke:
            c_["poke_steps"] = toy_poke
        c_["look"] = rng.random() < 0.4
        return c_
    prog, regs, terminal = gen_rv_program(rng)
    cfg = {"hz": rng.random() < 0.8, "dcache": rand_cache(rng), "icache": rand_cache(rng, data=False)}
    text = asm_text(prog)
    if rng.random() < 0.3:
        # add a data segment so that failed/successful loads also exercise the data path
        text = ".data\nd0: .word 1, 2, 3\nd1: .string \"ab\"\n.text\n" + text
    history = []
    for _ in range(rng.choice([0, 1, 2, 3, 5])):
        history.append(rng.choice(BAD_TEXTS_RV) if rng.random() < 0.5 else (rng.choice(["", "", ".data\nh0: .word 7, 8, 9\nh1: .half 1, 2\nh2: .string \"xyz\"\n.text\n"]) + asm_text(gen_rv_program(rng)[0])))
    if rng.random() < 0.2:
        history.insert(rng.randint(0, len(history)), text)  # the very same text was loaded before (editor re-assembles)
    if rng.random() < 0.15:
        cfg["via_state"] = rng.choice(["default", "matching"])
    elif rng.random() < 0.12:
        # the data memory / instruction memory objects of the state are REPLACED by the caller after construction
        # (the idiom of the project's own tests): a load works on the objects the state holds now
        cfg["dcache"] = None
        cfg["icache"] = None
        cfg["swap_memories"] = True
    poke_steps = None
    if rng.random() < 0.3:
        # histories of programs that do not start the simulation (empty / data only / malformed / first instruction
        # faults in the very first step), with done queries and step() calls in between
        history = [rng.choice(BAD_TEXTS_RV + ["", "# nothing", ".data\nq: .word 1, 2", "lw x1, 0(x0)\naddi x2, x0, 1", "addi a7, x0, 0\necall", "ecall\nnop", "fence x0, x0", "ebreak"]) for _ in range(rng.randint(0, 4))]
        poke_steps = [rng.random() < 0.7 for _ in range(len(history) + 1)]
    if rng.random() < 0.15:
        return {"kind": "life", "sim": kind, "cfg": cfg, "text": rng.choice(BAD_TEXTS_RV), "regs": {}, "terminal": "bad", "final_bad": True, "history": history or [text], "max_steps": 10, "after_done": []}
    case = {"kind": "life", "sim": kind, "cfg": cfg, "text": text, "regs": regs, "terminal": terminal, "history": history, "max_steps": 700, "after_done": [rng.choice(["step", "run", "step"]) for _ in range(4)]}
    if poke_steps:
        case["poke_steps"] = poke_steps
    case["look"] = rng.random() < 0.4
    return case


OVERSIZED_RV = "\n".join(["addi x1, x1, 1"] * 4100)  # fails after 4096 instructions have been written
OVERSIZED_TOY = "\n".join(["INC"] * 4100)


def directed_life():
    D = []
    small = "addi x1, x0, 5\naddi x2, x1, 1\naddi a7, x0, 93\necall"
    for kind in ("single", "five"):
        D.append({"kind": "life", "sim": kind, "cfg": {"hz": True, "dcache": None, "icache": None}, "text": small, "regs": {}, "terminal": "exit_ecall", "history": [small, OVERSIZED_RV], "max_steps": 60, "after_done": ["step", "run"]})
    D.append({"kind": "life", "sim": "five", "cfg": {"hz": True, "dcache": None, "icache": None, "via_state": "default"}, "text": small, "regs": {}, "terminal": "exit_ecall", "history": [], "max_steps": 60, "after_done": ["step", "run"]})
    D.append({"kind": "life", "sim": "toy", "cfg": {}, "text": "INC\nSTO 9\nL: DEC", "regs": {}, "terminal": "toy", "history": ["INC\nSTO 9\nL: DEC", OVERSIZED_TOY], "max_steps": 50, "after_done": ["step", "run"]})
    exit_prog = "addi a7, x0, 93\naddi a0, x0, 3\necall\naddi x5, x0, 1\nsw x5, 0(x6)\necall\naddi x7, x0, 2"
    for kind in ("single", "five"):
        for dc in (None, {"ib": 0, "bb": 0, "assoc": 1, "policy": "lru", "wt": False, "pen": 3}):
            D.append({"kind": "life", "sim": kind, "cfg": {"hz": True, "dcache": dc, "icache": None}, "text": exit_prog, "regs": {"6": 0x4000}, "terminal": "exit_ecall", "history": ["addi x1, x0", ".data\nv: .word 5\n.text\nlw x1, nope"], "max_steps": 60, "after_done": ["step", "run", "step", "step"]})
            D.append({"kind": "life", "sim": kind, "cfg": {"hz": True, "dcache": dc, "icache": {"ib": 0, "bb": 1, "assoc": 1, "policy": "lru", "pen": 2}}, "text": "", "regs": {}, "terminal": "empty", "history": ["nop\nnop"], "max_steps": 5, "after_done": ["step", "run"]})
            D.append({"kind": "life", "sim": kind, "cfg": {"hz": False, "dcache": dc, "icache": None}, "text": "addi x1, x0, 1\njal x0, 400\naddi x2, x0, 2", "regs": {}, "terminal": "jump_outside", "history": [], "max_steps": 60, "after_done": ["step", "step", "run"]})
    D.append({"kind": "life", "sim": "toy", "cfg": {}, "text": "INC\nSTO 5\nBRZ 9", "regs": {}, "terminal": "toy", "history": ["FOO", "LDA"], "max_steps": 50, "after_done": ["step", "first", "second", "single", "run"]})
    D.append({"kind": "life", "sim": "toy", "cfg": {}, "text": "", "regs": {}, "terminal": "empty", "history": ["NOP"], "max_steps": 5, "after_done": ["step", "first", "second", "single", "run"]})
    return D


# ------------------------------------------------------------------------------------------- C16


def _in_child(fn):
    """run fn() in a forked child and return its (picklable) result.  The child starts from the parent's memory
    image - in particular from the parent's class-/module-level state of the repository - and whatever it does to
    that state dies with it."""
    import os
    import pickle
    import signal
    import traceback

    r, w = os.pipe()
    pid = os.fork()
    if pid == 0:
        try:
            os.close(r)
            signal.alarm(60)
            try:
                out = ("ok", fn())
            except BaseException:
                out = ("err", traceback.format_exc()[-1500:])
            with os.fdopen(w, "wb") as f:
                pickle.dump(out, f)
        finally:
            os._exit(0)
    os.close(w)
    with os.fdopen(r, "rb") as f:
        data = f.read()
    os.waitpid(pid, 0)
    if not data:
        raise RuntimeError("forked inspection child died without a result")
    kind, val = pickle.loads(data)
    if kind == "err":
        raise RuntimeError("forked inspection child failed: " + val)
    return val


def run_pure_case(case, res):
    """The property: every inspection result (and all behaviour) is identical to a run WITHOUT the earlier calls.
    Three processes make 'without' literal:
      * a forked child runs twin A with random bursts of inspection calls between steps and records its snapshots;
      * the parent steps twin B and NEVER executes inspection code at all (so neither B nor the process-wide
        class-/module-level state of the repository is ever touched by an inspection);
      * at every comparison point a fresh child is forked from that clean parent, inspects B once (independent
        random call order) and reports the snapshot, which must equal A's.
    An inspection that changes its own later result, another inspection's result, later behaviour, or shared
    class-level tables is therefore observed."""
    import random
    from .. import snapshot as _snap

    _snap.KEEP_TIMER_LINES[0] = True
    try:
        return _run_pure_case(case, res)
    finally:
        _snap.KEEP_TIMER_LINES[0] = False


def _run_pure_case(case, res):
    import random

    kind, cfg = case["sim"], case["cfg"]
    res.count({"toy": "toy_cases", "five": "five_cases", "single": "single_cases"}[kind])
    names = INSPECT_TOY if kind == "toy" else INSPECT_RISCV
    every = case["join_step"]  # comparison density: 0 -> every step, k -> every k-th step, huge -> only at the end
    snapf = toy_snapshot if kind == "toy" else riscv_snapshot

    def build():
        s_ = make_sim(kind, cfg)
        if safe_load(s_, case["text"]) is not None:
            return None
        init_regs(kind, s_, case["regs"])
        if kind == "toy" and case.get("pokes") is not None:
            # arbitrary memory image behind the assembled prefix (self-modifying code, words the assembler never emits)
            from fixedint import UInt16

            for a_, v_ in case["pokes"].items():
                s_.state.memory.write_halfword(int(a_), UInt16(v_))
            s_.state.accu = UInt16(case.get("acc", 0))
        return s_

    def plan_rng():
        return random.Random(case["seed"])  # identical structural choices (half/whole steps) in both processes

    def due(n):
        return every == 0 or (every < 10**5 and n % every == 0)

    def run_a():
        """twin A (in the child): bursts of inspections, snapshots at the comparison points"""
        rngb = random.Random(case["seed"] + 1)
        pr = plan_rng()
        a_ = build()
        if a_ is None:
            return None
        insp = (lambda n_: call_toy_inspection(a_, n_)) if kind == "toy" else (lambda n_: call_inspection(a_, n_))
        calls = [0]
        halves = [0]

        def burst():
            for _ in range(rngb.randint(0, 3)):
                for name in rngb.sample(names, rngb.randint(1, len(names))):
                    for _ in range(rngb.choice([1, 1, 2, 3])):
                        insp(name)
                        calls[0] += 1

        snaps = []
        burst()
        snaps.append(snapf(a_, rngb.sample(names, len(names))))
        n = 0
        reload_ = case.get("reload")
        while n < case["max_steps"]:
            if reload_ and (n == reload_["at"] or a_.is_done()):
                # the editor loads another program into the same simulation (which has been inspected)
                if safe_load(a_, reload_["text"]) is not None:
                    snaps.append("LOADFAIL")
                    break
                init_regs(kind, a_, case["regs"])
                reload_ = None
                burst()
                snaps.append(snapf(a_, rngb.sample(names, len(names))))
            if a_.is_done():
                break
            try:
                if kind == "toy" and pr.random() < 0.5:
                    a_.first_cycle_step()
                    burst()  # inspection between the two half cycles
                    halves[0] += 1
                    if pr.random() < 0.6:
                        snaps.append(snapf(a_, rngb.sample(names, len(names))))  # compared mid-instruction as well
                    a_.second_cycle_step()
                else:
                    a_.step()
            except Exception:
                snaps.append("EXC")
                break
            n += 1
            burst()
            if due(n):
                snaps.append(snapf(a_, rngb.sample(names, len(names))))
        snaps.append(snapf(a_, rngb.sample(names, len(names))))
        return {"snaps": snaps, "calls": calls[0], "halves": halves[0], "steps": n}

    A = _in_child(run_a)
    if A is None:
        return
    res.count("inspection_calls", A["calls"])
    if A["halves"]:
        res.count("toy_half_cycle_bursts", A["halves"])
    snaps = A["snaps"]
    rngo = random.Random(case["seed"] + 2)
    pr = plan_rng()
    b_ = build()
    si = [0]

    def misses():
        if kind == "toy":
            return 0
        t = 0
        for st in (b_.state.memory.get_cache_stats(), b_.state.instruction_memory.get_cache_stats()):
            if st:
                t += int(st["accesses"]) - int(st["hits"])
        return t

    def compare(where):
        order = rngo.sample(names, len(names))
        b = _in_child(lambda: snapf(b_, order))
        a = snaps[si[0]] if si[0] < len(snaps) else None
        si[0] += 1
        res.count("snapshots_compared")
        res.count("blind_twin_joins")
        if a != b:
            what = diff_names(a, b) if isinstance(a, list) and isinstance(b, list) else "the run itself (%r vs snapshot)" % (a,)
            res.violation("C16", "inspection-impure", "%s: the inspected twin differs from a twin that was never inspected (inspected once, in a fresh process) in %s" % (where, what), case)
            return False
        return True

    nt = False
    if not compare("before the first step"):
        return
    n = 0
    reload_ = case.get("reload")
    while n < case["max_steps"]:
        if reload_ and (n == reload_["at"] or b_.is_done()):
            if safe_load(b_, reload_["text"]) is not None:
                if not (si[0] < len(snaps) and snaps[si[0]] == "LOADFAIL"):
                    res.violation("C16", "inspection-impure", "re-loading at step %d fails on the never-inspected twin only" % n, case)
                    return
                break
            init_regs(kind, b_, case["regs"])
            reload_ = None
            res.count("reloads_of_inspected_simulation")
            nt = True
            if si[0] < len(snaps) and snaps[si[0]] == "LOADFAIL":
                res.violation("C16", "inspection-impure", "re-loading at step %d fails on the inspected twin only" % n, case)
                return
            if not compare("after loading the second program at step %d" % n):
                return
        if b_.is_done():
            break
        m_before = misses()
        try:
            if kind == "toy" and pr.random() < 0.5:
                # (twin A did the same instruction as two half cycles with inspections in between)
                nt = True
                b_.first_cycle_step()
                if pr.random() < 0.6:
                    if not compare("between the half cycles of instruction %d" % (n + 1)):
                        return
                b_.second_cycle_step()
            else:
                b_.step()
        except Exception:
            if si[0] < len(snaps) and snaps[si[0]] == "EXC":
                si[0] += 1
            else:
                res.violation("C16", "inspection-impure", "the never-inspected twin raised at step %d, the inspected twin did not" % (n + 1), case)
                return
            break
        n += 1
        if kind != "toy" and misses() > m_before:
            res.count("cache_misses_after_burst")
            nt = True
        if due(n):
            if not compare("after step %d" % n):
                return
    if not compare("at the end (after %d steps)" % n):
        return
    if nt:
        res.nontrivial(h64(case))


def gen_pure_case(rng):
    kind = rng.choice(["single", "five", "five", "toy"])
    if kind == "toy":
        from . import toy as T

        src = T.gen_source(rng)
        case = {"kind": "pure", "sim": "toy", "cfg": {}, "text": src["text"], "regs": {}, "max_steps": 80, "join_step": rng.choice([0, 1, 2, 3, 10**6]), "seed": rng.getrandbits(30)}
        if rng.random() < 0.5:
            pc_ = T.gen_selfmod_case(rng) if rng.random() < 0.3 else T.gen_prog_case(rng)
            case.update(text=pc_["text"], pokes=pc_["pokes"], acc=pc_["acc"])
            if rng.random() < 0.5:
                # runs of same-opcode words whose address bits differ (non-address opcodes keep their low bits)
                L_ = pc_["L"]
                op_ = rng.choice([8, 9, 10, 11, 12, 13])
                for a_ in range(1, L_):
                    if rng.random() < 0.6:
                        case["pokes"][str(a_)] = (op_ << 12) | rng.getrandbits(12)
        elif rng.random() < 0.3:
            case["reload"] = {"at": rng.choice([0, 1, 3, 8, 10**6]), "text": T.gen_source(rng)["text"]}
        if rng.random() < 0.15:
            # the same (address, word) pair is an INSTRUCTION of the first program and DATA of the second one (which is
            # shorter and stores that very word there): what the tables say about a cell depends on the program that
            # is loaded now, not on what was shown for the previous one
            words = [("NOP", 0xC000), ("INC", 0x9000), ("DEC", 0xA000), ("ZRO", 0xB000), ("NOT", 0x8000), ("STO 0x000", 0x0000), ("LDA 0x005", 0x1005), ("ADD 0x007", 0x3007), ("BRZ 0x003", 0x2003)]
            L_ = rng.randint(4, 9)
            lines = [rng.choice(words) for _ in range(L_)]
            a_ = rng.randrange(2, L_)
            case = {"kind": "pure", "sim": "toy", "cfg": {}, "text": "\n".join(t_ for t_, _ in lines), "regs": {}, "max_steps": 40, "join_step": rng.choice([0, 1, 2, 10**6]), "seed": rng.getrandbits(30)}
            case["reload"] = {"at": rng.choice([0, 1, 2, 3]), "text": ".data\nc_: .word %d\n.text\nLDA c_\nSTO %d" % (lines[a_][1], a_)}
        return case
    prog, regs, _ = gen_rv_program(rng, allow_fault=rng.random() < 0.1)
    cfg = {"hz": rng.random() < 0.8, "dcache": rand_cache(rng), "icache": rand_cache(rng, data=False)}
    if rng.random() < 0.5:
        regs["17"] = 4
        regs["10"] = 0x4000
    text = asm_text(prog)
    if rng.random() < 0.4:
        # store / load back / add two loaded values so that the sum overflows 32 bits / look at the high bits
        k_ = rng.choice([0, 4, 8, 12])
        pro = ["sw x5, %d(x31)" % k_, "lw x6, %d(x31)" % k_, "lw x7, %d(x31)" % k_, "add x8, x6, x7", "srli x9, x8, 1", "sltu x1, x8, x6", "sll x2, x6, x7", "mul x3, x6, x7"]
        regs = dict(regs)
        regs["5"] = rng.choice([0x80000001, 0xFFFFFFFF, 0xC0000000, rng.getrandbits(32) | 0x80000000])
        regs.setdefault("31", 0x4000)
        text = "\n".join(pro) + "\n" + "\n".join("nop" for _ in range(rng.randint(0, 2))) + ("\n" if text else "") + text
    if kind == "single" and rng.random() < 0.35:
        # CSR instructions execute in single-cycle mode (and take the 'no visualisation' path of the SVG list)
        lines = text.split("\n")
        for _ in range(rng.randint(1, 3)):
            lines.insert(rng.randrange(len(lines) + 1), rng.choice(["csrrw x5, 0x001, x6", "csrrs x7, 0x0ff, x0", "csrrwi x5, 0x002, 7", "csrrc x6, 0x400, x5", "csrrsi x0, 0x800, 3", "csrrci x9, 0x001, 1"]))
        text = "\n".join(lines)
    if rng.random() < 0.4:
        text = ".data\nd0: .word 1, 2, 3\nd1: .string \"abc\"\n.text\n" + text
    case = {"kind": "pure", "sim": kind, "cfg": cfg, "text": text, "regs": regs, "max_steps": 250, "join_step": rng.choice([0, 1, 2, 3, 7, 10**6]), "seed": rng.getrandbits(30)}
    if rng.random() < 0.08:
        k_ = rng.choice([4, 6, 12, 18, 29])
        case["cfg"] = {"hz": cfg["hz"], "dcache": None, "icache": None, "short_regs": k_}
        case["regs"] = {r_: v_ for r_, v_ in regs.items() if int(r_) < k_}
    if rng.random() < 0.2:
        # another program is loaded into the same (inspected) simulation: at once, mid-run, or when the first is done
        case["reload"] = {"at": rng.choice([0, 1, 2, 5, 12, 10**6]), "text": asm_text(gen_rv_program(rng)[0])}
    return case


def run_case(prop, case, res):
    if case["kind"] == "life":
        run_life_case(case, res)
    elif case["kind"] == "interleave":
        run_interleave_case(case, res)
    else:
        run_pure_case(case, res)


def run_shard(spec, res):
    prop = spec["prop"]
    rng = rng_for(prop, spec["tier"], spec["seed"], spec["kind"], spec["shard"])
    if spec["kind"] == "directed":
        for c in directed_life():
            guarded(run_case, prop, c, res)
            res.evaluations += 1
        return
    if spec["kind"] == "longout":
        # ONE long run whose console output passes 64 KiB (and, in the thorough tier, 256 KiB) while the inspected twin
        # keeps polling output, tables and statistics: what was printed stays printed
        n_ = 1100 if spec["tier"] == "quick" else 4200
        mode_ = ["single", "five"][spec["seed"] % 2]
        text = ".data\nmsg: .string \"%s\"\n.text\nla a0, msg\nli a7, 4\nli t0, %d\nagain:\necall\naddi t0, t0, -1\nbne t0, zero, again\nli a7, 10\necall" % ("0123456789abcdef" * 4, n_)
        case = {"kind": "pure", "sim": mode_, "cfg": {"hz": True, "dcache": None, "icache": None}, "text": text, "regs": {}, "max_steps": 30 * n_, "join_step": 10**6, "seed": 12345 + spec["seed"]}
        guarded(run_case, prop, case, res)
        res.evaluations += 1
        res.count("long_output_runs")
        return
    for it in range(spec["n"]):
        case = (gen_interleave_case(rng) if rng.random() < 0.3 else gen_life_case(rng)) if spec["kind"] == "life" else gen_pure_case(rng)
        guarded(run_case, prop, case, res)
        res.evaluations += 1
        if it < 1:
            res.sample(case, 4)
