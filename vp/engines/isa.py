"""Engine `isa` - C01: single-cycle RV32IM execution vs. the sequential reference (lockstep)."""
from ..common import make_riscv_at, guarded, Result, rng_for, h64, make_riscv, install_program, build_instr, set_regs, preload_mem, real_regs, instr_text, M32
from ..refmodels.rv32 import SeqRef, Fault, srcs, footprint, execute
from ..gen import progs as G

RULE = {
    "C01": "cases: (a) single instructions built directly (every mnemonic, 9 register-aliasing patterns, boundary x random operands, "
    "boundary immediates, instruction addresses incl. 0 and the last slot, memory around every pointer) and (b) random soup / structured programs; "
    "each is stepped in lockstep with the sequential reference and compared after EVERY step (registers, pc mod 2^32, output, exit code, done-ness, "
    "touched memory; full memory at the end).  non-trivial = the case changed architectural state beyond pc+4 (register value changed, store, "
    "taken transfer, output, exit) or faulted; distinct = by hash of the full case description."
}
ASSUMPTIONS = {
    "C01": [
        "reference R1 (vp/refmodels/rv32.py) is a faithful reading of the RISC-V unprivileged spec and the documented ecall table",
        "pc compared modulo 2^32 (DESIGN 5-r1); memory compared outside the faulting footprint on a fault (5-r2)",
        "operand space sampled (boundary classes x random), not closed",
    ]
}
REQUIRED = {"C01": ["steps_compared", "instr_cases", "prog_cases", "faults_compared", "stores_compared", "ecall_outputs_compared", "taken_transfers", "steps_after_end_checked", "prog_cases_with_caches", "exits_compared"]}


def plan(prop, tier, seed):
    if tier == "quick":
        return [{"kind": "instr", "n": 2600, "shard": i} for i in range(12)] + [{"kind": "prog", "n": 260, "shard": i} for i in range(4)] + [{"kind": "directed", "shard": 0}, {"kind": "long", "shard": 0}]
    return [{"kind": "instr", "n": 150000, "shard": i} for i in range(32)] + [{"kind": "prog", "n": 12000, "shard": i} for i in range(16)] + [{"kind": "directed", "shard": 0}, {"kind": "long", "shard": 0}]


def run_shard(spec, res):
    rng = rng_for("C01", spec["tier"], spec["seed"], spec["kind"], spec["shard"])
    if spec["kind"] == "long":
        # one LONG run (instruction and cycle counters, cache hit and access counters pass 2^16) in lockstep
        from .pipe import long_case

        c = long_case(True, 6000 if spec["tier"] == "quick" else 9000)
        case = {"kind": "prog", "prog": c["prog"], "regs": c["regs"], "mem": c["mem"], "max_steps": 400000, "via": "direct", "blind": True, "dcache": c["dcache"], "icache": c["icache"]}
        guarded(run_case, "C01", case, res)
        res.evaluations += 1
        res.count("long_runs")
        return
    if spec["kind"] == "directed":
        for case in directed_cases():
            guarded(run_case, "C01", case, res)
            res.evaluations += 1
        return
    for it in range(spec["n"]):
        if spec["kind"] == "instr":
            m = G.ALL[(it + spec["shard"]) % len(G.ALL)] if it % 2 == 0 else None
            case = G.instr_case(rng, m)
        else:
            case = prog_case(rng)
        guarded(run_case, "C01", case, res)
        res.evaluations += 1
        if it < 2:
            res.sample(case)


def prog_case(rng):
    k = rng.random()
    if k < 0.5:
        n = rng.randint(1, 24)
        prog = G.soup_program(rng, n, aligned=rng.random() < 0.5)
        regs = G.soup_regs(rng)
    else:
        prog, regs = G.structured_program(rng, size=rng.randint(4, 30), aligned=rng.random() < 0.6, faults=rng.random() < 0.3)
    case = {"kind": "prog", "prog": prog, "regs": regs, "mem": G.init_mem(rng), "max_steps": 400, "via": "asm" if rng.random() < 0.25 else "direct"}
    if case["via"] == "asm" and rng.random() < 0.6:
        from ..gen import asm_rv as A

        case["data"] = [d_ for d_ in A.gen_data(rng, 4) if d_["name"] != "zpad_"]
        case["data_render"] = rng.getrandbits(30) + 1
    if rng.random() < 0.4:
        # the ISA semantics do not depend on the cache configuration: same lockstep comparison with caches on
        # (programs whose accesses stay within one word - crossing accesses are rejected by a data cache, see C03)
        from .cache import rand_cfg

        if k < 0.5:
            case["prog"] = G.soup_program(rng, rng.randint(4, 30), aligned=True, mem_w=0.4)
        else:
            case["prog"], case["regs"] = G.structured_program(rng, size=rng.randint(4, 30), aligned=True, faults=False)
        case["dcache"] = rand_cfg(rng, small=True)
        if rng.random() < 0.5:
            ic = rand_cfg(rng, small=True)
            case["icache"] = {x: ic[x] for x in ("ib", "bb", "assoc", "policy", "pen")}
    case["blind"] = rng.random() < 0.5
    if "dcache" not in case and "data" not in case and rng.random() < 0.12:
        case["fullmem"] = True
        # (prologue: stores and loads that straddle the top of the address space and continue at address 0)
        pro = [{"m": "sw", "rs1": 0, "rs2": 5, "imm": -rng.choice([1, 2, 3])}, {"m": "sh", "rs1": 0, "rs2": 10, "imm": -1}, {"m": "lw", "rd": 3, "rs1": 0, "imm": -rng.choice([1, 2, 3])}, {"m": "lw", "rd": 2, "rs1": 0, "imm": 0}, {"m": "lhu", "rd": 1, "rs1": 0, "imm": -1}]
        case["prog"] = pro[: rng.randint(2, 5)] + G.soup_program(rng, rng.randint(4, 24), aligned=False, mem_w=0.45)
        case["regs"] = dict(G.soup_regs(rng), **{"31": rng.choice([0, 0xFFFFFFC0, 0xFFFFFFE1, 0x3FF0, 0x20])})
        return case
    if "dcache" not in case and "data" not in case and rng.random() < 0.08:
        # a caller-supplied data memory that does NOT wrap addresses itself: the address an instruction computes is
        # (rs1 + imm) mod 2^32 whatever the memory would do with other numbers; stores through negative sums first
        case["nowrapmem"] = True
        case["prog"] = [{"m": rng.choice(["sw", "sh", "sb"]), "rs1": 0, "rs2": 5, "imm": -rng.choice([4, 8, 16])}, {"m": "sw", "rs1": 31, "rs2": 10, "imm": 8}][: rng.randint(1, 2)] + case["prog"]
        return case
    if "icache" not in case and rng.random() < 0.15:
        case["ibase"] = rng.choice([0x40, 0x100, 0x404, 0x1000, 0x2F00])
        if "dcache" not in case and case["via"] != "asm" and rng.random() < 0.4:
            # ... with an instruction cache in front of it, the range ending one to three words behind the program (so
            # that the last block straddles the end of the range)
            from .cache import rand_cfg

            ic = rand_cfg(rng, small=True)
            case["icache"] = {x: ic[x] for x in ("ib", "bb", "assoc", "policy", "pen")}
            case["icache"]["bb"] = max(1, case["icache"]["bb"])
            case["isize"] = 4 * (len(case["prog"]) + rng.choice([1, 2, 3, 5]))
    return case


def directed_cases():
    """fixed corpus: every event class the monitor needs is reached for every seed."""
    out = []
    R = lambda **k: {str(a[1:]): v for a, v in k.items()}
    # INT_MIN / -1, div by zero, shifts >= 32, x0 writes, JALR bit 0 / rd==rs1, wrap-around load address
    for m in ("div", "rem", "divu", "remu"):
        for a, b in ((0x80000000, M32), (7, 0), (0, 0)):
            out.append({"kind": "instr", "instr": {"m": m, "rd": 3, "rs1": 1, "rs2": 2}, "addr": 0, "regs": {"1": a, "2": b}, "mem": {}, "cls": ["directed"]})
    for m in ("sll", "srl", "sra"):
        out.append({"kind": "instr", "instr": {"m": m, "rd": 3, "rs1": 1, "rs2": 2}, "addr": 4, "regs": {"1": 0x80000001, "2": 33}, "mem": {}, "cls": ["directed"]})
    out.append({"kind": "instr", "instr": {"m": "addi", "rd": 0, "rs1": 1, "imm": 5}, "addr": 0, "regs": {"1": 9}, "mem": {}, "cls": ["directed"]})
    out.append({"kind": "instr", "instr": {"m": "jalr", "rd": 1, "rs1": 1, "imm": 5}, "addr": 0x3FFC, "regs": {"1": M32}, "mem": {}, "cls": ["directed"]})
    out.append({"kind": "instr", "instr": {"m": "sltiu", "rd": 1, "rs1": 2, "imm": -1}, "addr": 0, "regs": {"2": 0xFFFFFFFE}, "mem": {}, "cls": ["directed"]})
    out.append({"kind": "instr", "instr": {"m": "lw", "rd": 1, "rs1": 2, "imm": -4}, "addr": 0, "regs": {"2": 0x4000}, "mem": {}, "cls": ["directed"]})
    out.append({"kind": "instr", "instr": {"m": "lh", "rd": 1, "rs1": 2, "imm": 2047}, "addr": 0, "regs": {"2": 0xFFFFF801 + 0x4000}, "mem": {"16384": 0x80, "16385": 0xFF}, "cls": ["directed"]})
    out.append({"kind": "instr", "instr": {"m": "sw", "rs1": 2, "rs2": 3, "imm": 0}, "addr": 0, "regs": {"2": 0xFFFFFFFE, "3": 0x11223344}, "mem": {}, "cls": ["directed"]})
    for code, a0 in ((1, 0x80000000), (2, 0x40490FDB), (11, 0x1C1), (34, 0xABC), (35, 5), (36, M32), (93, 0xFFFFFFFE), (10, 7), (5, 0)):
        out.append({"kind": "instr", "instr": {"m": "ecall"}, "addr": 0, "regs": {"17": code, "10": a0}, "mem": {}, "cls": ["directed"]})
    out.append({"kind": "instr", "instr": {"m": "ecall"}, "addr": 0, "regs": {"17": 4, "10": 0x4002}, "mem": {"16386": 72, "16387": 0xE9, "16388": 0}, "cls": ["directed"]})
    # a program with loop + call + store + print + exit with younger instructions behind
    prog = [
        {"m": "addi", "rd": 5, "rs1": 0, "imm": 3},
        {"m": "add", "rd": 6, "rs1": 6, "rs2": 5},
        {"m": "sw", "rs1": 31, "rs2": 6, "imm": 0},
        {"m": "addi", "rd": 5, "rs1": 5, "imm": -1},
        {"m": "bne", "rs1": 5, "rs2": 0, "imm": -12},
        {"m": "jal", "rd": 1, "imm": 20},
        {"m": "addi", "rd": 17, "rs1": 0, "imm": 1},
        {"m": "lw", "rd": 10, "rs1": 31, "imm": 0},
        {"m": "ecall"},
        {"m": "jal", "rd": 0, "imm": 12},
        {"m": "slli", "rd": 6, "rs1": 6, "imm": 4},
        {"m": "jalr", "rd": 0, "rs1": 1, "imm": 0},
        {"m": "addi", "rd": 17, "rs1": 0, "imm": 93},
        {"m": "ecall"},
        {"m": "addi", "rd": 7, "rs1": 0, "imm": 99},
    ]
    out.append({"kind": "prog", "prog": prog, "regs": {"31": 0x4000}, "mem": {}, "max_steps": 200, "via": "direct"})
    out.append({"kind": "prog", "prog": [{"m": "addi", "rd": 1, "rs1": 0, "imm": 1}, {"m": "jal", "rd": 0, "imm": -8}], "regs": {}, "mem": {}, "max_steps": 50, "via": "direct"})
    out.append({"kind": "prog", "prog": [{"m": "beq", "rs1": 0, "rs2": 0, "imm": 0}], "regs": {}, "mem": {}, "max_steps": 20, "via": "direct"})
    out.append({"kind": "prog", "prog": [], "regs": {}, "mem": {}, "max_steps": 5, "via": "direct"})
    return out


def _cmp_state(sim, ref, res, case, where, check_mem=None):
    bad = []
    rr = real_regs(sim)
    if rr != ref.x:
        diff = [(i, hex(rr[i]), hex(ref.x[i])) for i in range(32) if rr[i] != ref.x[i]]
        bad.append("registers (reg, real, ref): %s" % diff[:4])
    if (sim.state.program_counter - ref.pc) % (1 << 32):
        bad.append("pc real=%s ref=%s" % (sim.state.program_counter, ref.pc))
    if sim.state.output != ref.out:
        bad.append("output real=%r ref=%r" % (sim.state.output[-40:], ref.out[-40:]))
    if sim.state.exit_code != ref.exit:
        bad.append("exit real=%r ref=%r" % (sim.state.exit_code, ref.exit))
    if bool(sim.is_done()) != bool(ref.done()):
        bad.append("done real=%r ref=%r" % (sim.is_done(), ref.done()))
    if check_mem:
        m = sim.state.memory
        for a in check_mem:
            if a >= 0x4000:
                got = int(m.read_byte(a, False))
                if got != ref.mem.b.get(a, 0):
                    bad.append("mem[%#x] real=%#x ref=%#x" % (a, got, ref.mem.b.get(a, 0)))
                    break
    if bad:
        res.violation("C01", "state-mismatch", "%s: %s" % (where, "; ".join(bad)), case)
        return False
    return True


def _full_mem(sim, ref):
    if sim.state.memory.get_cache_stats() is not None:
        from .pipe import mem_image

        real = mem_image(sim, ref.mem.b.keys())
    else:
        real = {a: int(v) for a, v in sim.state.memory.memory_file.items() if int(v)}
    return real == ref.mem.nonzero(), real


def run_case(prop, case, res):
    from architecture_simulator.simulation.runtime_errors import InstructionExecutionException

    cached = bool(case.get("dcache"))
    if case.get("blind"):
        res.count("prog_cases_memory_unobserved_while_running")
    ibase = case.get("ibase", 0)
    if case.get("fullmem"):
        # a caller-supplied data memory whose valid range is the whole 32-bit address space (wrapping): every data
        # address is legal there, an access that runs past the top continues at address 0
        from architecture_simulator.simulation.riscv_simulation import RiscvSimulation
        from architecture_simulator.uarch.riscv.riscv_architectural_state import RiscvArchitecturalState
        from architecture_simulator.uarch.memory.memory import Memory, AddressingType

        sim = RiscvSimulation(state=RiscvArchitecturalState(memory=Memory(AddressingType.BYTE, 32, True)))
        res.count("prog_cases_on_full_range_data_memory")
    elif case.get("nowrapmem"):
        from architecture_simulator.simulation.riscv_simulation import RiscvSimulation
        from architecture_simulator.uarch.riscv.riscv_architectural_state import RiscvArchitecturalState
        from architecture_simulator.uarch.memory.memory import Memory, AddressingType

        sim = RiscvSimulation(state=RiscvArchitecturalState(memory=Memory(AddressingType.BYTE, 32, False, range(2**14, 2**32))))
        res.count("prog_cases_on_non_wrapping_data_memory")
    elif ibase:
        # instruction memory with another address range: program and start of execution move with it
        sim = make_riscv_at("single", ibase, dcache=case.get("dcache"), icache=case.get("icache"), size=case.get("isize", 0x3000))
        if case.get("icache"):
            res.count("prog_cases_with_icache_over_short_custom_range")
        res.count("prog_cases_at_other_instruction_base")
    else:
        sim = make_riscv("single", dcache=case.get("dcache"), icache=case.get("icache"))
    if cached:
        res.count("prog_cases_with_caches")
    if case["kind"] == "instr":
        d = case["instr"]
        addr = case["addr"]
        sim.state.instruction_memory.write_instruction(addr, build_instr(d, addr))
        sim.state.program_counter = addr
        prog = {addr: d}
        res.count("instr_cases")
        res.count("mn_" + d["m"])
        max_steps = 1
    else:
        if case.get("via") == "asm":
            # same program through the assembler (the description stays the source of truth)
            from .icache import asm_text

            text = asm_text(case["prog"], ibase)
            if case.get("data"):
                # part of the initial memory contents comes from a data segment (the assembler preloads it below
                # the caches); the preloaded bytes of the case are written on top of it afterwards
                from ..gen import asm_rv as A

                text = ".data\n" + "\n".join(A.Renderer(case["data_render"]).data_lines(case["data"])) + "\n.text\n" + text
                _v, img_, _e = A.layout(case["data"])
                case = dict(case, mem=dict({str(a_): v_ for a_, v_ in img_.items()}, **case["mem"]))
                res.count("prog_cases_with_data_segment")
            sim.load_program(text)
            res.count("prog_cases_via_assembler")
        else:
            install_program(sim, case["prog"], ibase)
        prog = {ibase + 4 * i: d for i, d in enumerate(case["prog"])}
        addr = ibase
        res.count("prog_cases")
        max_steps = case.get("max_steps", 300)
    set_regs(sim, case["regs"])
    preload_mem(sim, case["mem"])
    ref = SeqRef(prog, case["regs"], case["mem"], pc=addr, data_min=0 if case.get("fullmem") else (1 << 14))
    ref.keep_trace = False
    nontrivial = False
    if bool(sim.is_done()) != bool(ref.done()):
        res.violation("C01", "done-mismatch", "before first step: real=%r ref=%r" % (sim.is_done(), ref.done()), case)
        return
    steps = 0
    while not ref.done() and steps < max_steps:
        pc = ref.pc
        d = prog[pc]
        before = list(ref.x)
        ops = tuple(ref.x[s] for s in srcs(d))
        fp = footprint(d, ops)
        if case.get("nowrapmem") and d["m"] in G.WIDTH:
            # what a memory that does not wrap does with a LOAD address outside [0, 2^32), or with an access that runs
            # past the top, is its own business (not claimed either way): the case ends there
            raw_ = ref.x[d["rs1"]] + d["imm"]
            if (d["m"] in G.LD and not 0 <= raw_ < (1 << 32)) or (raw_ & M32) + G.WIDTH[d["m"]] > (1 << 32):
                res.count("non_wrapping_memory_case_ended_at_unspecified_access")
                break
        out_before = sim.state.output
        regs_before = real_regs(sim)
        fault = None
        try:
            r = ref.step()
        except Fault as f:
            fault = f
        try:
            ret = sim.step()
            rfault = None
        except InstructionExecutionException as e:
            rfault = e
        except Exception as e:  # any other exception type is a C15 matter, but also a C01 mismatch
            res.violation("C15", "untyped-runtime-error", "step raised %r at pc=%d (%s)" % (e, pc, instr_text(d)), case)
            res.violation("C01", "unexpected-exception", "step raised %r at pc=%d (%s)" % (e, pc, instr_text(d)), case)
            return
        steps += 1
        res.count("steps_compared")
        if fault or rfault:
            nontrivial = True
            res.count("faults_compared")
            if bool(fault) != bool(rfault):
                res.violation("C01", "fault-one-sided", "pc=%d %s: ref fault=%r real fault=%r" % (pc, instr_text(d), fault and (fault.kind, fault.addr), rfault), case)
                return
            bad = []
            if rfault.address != pc:
                bad.append("fault address real=%r ref=%d" % (rfault.address, pc))
            if real_regs(sim) != regs_before or sim.state.output != out_before:
                bad.append("registers/output changed by the faulting instruction")
            # memory outside the in-range part of the footprint must be unchanged
            ok, real = _full_mem(sim, ref)
            if not ok:
                diff = [a for a in set(real) | set(ref.mem.nonzero()) if real.get(a, 0) != ref.mem.b.get(a, 0) and a not in fp]
                if diff:
                    bad.append("memory outside the faulting footprint differs at %s" % [hex(a) for a in sorted(diff)[:4]])
            if bad:
                res.violation("C01", "fault-state", "pc=%d %s: %s" % (pc, instr_text(d), "; ".join(bad)), case)
            res.nontrivial(h64(case)) if nontrivial else None
            return
        if ret is not (not sim.is_done()):
            res.violation("C13", "step-return", "step() returned %r but is_done()=%r" % (ret, sim.is_done()), case)
        if r["kind"] == "store":
            res.count("stores_compared")
        if r["kind"] == "load":
            res.count("loads_compared")
        if r["out"] is not None:
            res.count("ecall_outputs_compared")
        if r["exit"] is not None:
            res.count("exits_compared")
        if r["taken"]:
            res.count("taken_transfers")
        if ref.x != before or r["kind"] == "store" or r["taken"] or r["out"] is not None or r["exit"] is not None:
            nontrivial = True
        # half of the program runs are never looked at through the memory interface while they run (registers, pc and
        # output are plain attributes): a monitor's own reads must not be what keeps the memory honest
        if not _cmp_state(sim, ref, res, case, "after step %d (pc=%d %s)" % (steps, pc, instr_text(d)), check_mem=None if case.get("blind") else fp):
            return
    # end of run: full memory image and termination
    ok, real = _full_mem(sim, ref)
    if not ok:
        diff = sorted(a for a in set(real) | set(ref.mem.nonzero()) if real.get(a, 0) != ref.mem.b.get(a, 0))
        res.violation("C01", "final-memory", "memory differs at %s" % [(hex(a), real.get(a, 0), ref.mem.b.get(a, 0)) for a in diff[:4]], case)
    if ref.done() and sim.is_done():
        # execution has ended: a further step() executes nothing
        before = (real_regs(sim), sim.state.program_counter, sim.state.output, sim.state.exit_code, _full_mem(sim, ref)[1], sim.state.performance_metrics.instruction_count)
        for _ in range(2):
            sim.step()
        after = (real_regs(sim), sim.state.program_counter, sim.state.output, sim.state.exit_code, _full_mem(sim, ref)[1], sim.state.performance_metrics.instruction_count)
        res.count("steps_after_end_checked")
        if after != before:
            names = ["registers", "pc", "output", "exit code", "memory", "instruction count"]
            res.violation("C01", "executes-after-end", "step() after the end of execution changed %s" % [names[i] for i in range(6) if before[i] != after[i]], case)
            return
    if ref.done():
        res.count("runs_to_completion")
    else:
        res.count("runs_to_step_bound")
    if nontrivial:
        res.nontrivial(h64(case))
    if case["kind"] == "instr":
        res.count("cls_" + "/".join(case["cls"][:2]))
