"""Engine `cache` - C03 (transparency), C09 (accounting), C12 (write policy invariants); also feeds C10's
set-level clause (which way a fill displaces).

History monitor: every operation on the real cached MemorySystem is observed at its boundary and
compared with R3 (flat memory) for values and R4 (tag-only reference cache) for hit/miss, counters and
resident tags; the C12 invariant is evaluated at the quiescent point after every operation."""
import copy

from ..common import guarded, Result, rng_for, h64, make_riscv, install_program, set_regs, preload_mem, real_regs, M32, instr_text
from ..refmodels.refcache import FlatMem, RefCache
from ..refmodels.rv32 import SeqRef, LOADS, STORES
from ..refmodels.timed5 import TimedRef
from ..gen import progs as G
from . import pipe

RULE = {
    "C03": "access histories (widths 1/2/4 at every byte offset incl. word-crossing ones, counted/uncounted reads, preload below the cache, reset, address spellings <0 and >=2^32) on random geometries with a conflict-heavy address universe, explicit-state BFS on tiny geometries, and programs run with/without cache in both modes; "
    "non-trivial = history with >=1 eviction of a written block and >=1 mixed-width read of written data (programs: >=1 miss and >=1 store); distinct by case hash.",
    "C09": "histories of accepted accesses only, compared after every operation with the reference cache's (hits, accesses, last_hit) and the cycle counter; programs in both modes; "
    "non-trivial = history containing hits, misses, a write miss, and an uncounted read between two counted ones (programs: >=1 hit and >=1 miss); distinct by case hash.",
    "C12": "state invariant evaluated after every operation of the C03 histories / BFS (crossing accesses included): WT backing == logical and resident == backing; WB backing may differ only where resident, resident-or-backing == logical; "
    "non-trivial = history in which a dirty block was evicted (WB) or a resident block was written (WT); distinct by case hash.",
}
ASSUMPTIONS = {
    "C03": ["flat-memory oracle R3; a rejected access may touch cache state/counters, only stored values must be unchanged (DESIGN 5-r3)", "block fill cost limits huge-block geometries to one directed configuration"],
    "C09": ["reference cache R4 (tag-only, vp/refmodels/refcache.py) with policies R5; uncounted reads are modelled as state-changing, counter-neutral accesses (5-r4)", "rejected accesses are outside the accounting claim and are not generated"],
    "C12": ["resident blocks are observed through the public cache_repr(); backing store through the public read_byte of the lower Memory"],
}
REQUIRED = {
    "C03": ["below_range_rejected", "long_history_counter_checks", "reads_compared", "crossing_rejected", "readback_after_reject", "evictions", "bfs_transitions", "prog_runs_compared", "uncounted_reads", "preloaded_histories", "asm_programs_compared"],
    "C09": ["long_history_counter_checks", "long_history_hot_phases", "counter_checks", "hits", "misses", "write_miss_no_allocate", "uncounted_reads", "penalty_checks_nonzero", "prog_stats_compared", "bfs_transitions", "warm_preloads_on_resident_block", "load_stats_checked"],
    "C12": ["below_range_rejected", "invariant_checks", "wt_resident_written", "wb_dirty_evictions", "bfs_transitions", "crossing_rejected", "invariant_checks_after_load", "invariant_checks_at_program_end"],
}


def plan(prop, tier, seed):
    q = tier == "quick"
    sh = [{"kind": "directed", "shard": 0}]
    sh += [{"kind": "hist", "n": 110 if q else 2500, "ops": 150, "shard": i} for i in range(10 if q else 24)]
    if prop in ("C03", "C12"):
        sh += [{"kind": "bfs", "depth": 4 if q else 6, "cfgi": i, "shard": i} for i in range(10)]
    if prop == "C09":
        sh += [{"kind": "bfs", "depth": 4 if q else 6, "cfgi": i, "shard": i, "acct": True} for i in range(10)]
    if prop == "C12":
        sh += [{"kind": "simpolicy", "n": 150 if q else 2500, "shard": i} for i in range(4 if q else 12)]
    if prop in ("C03", "C09"):
        sh += [{"kind": "prog", "n": 90 if q else 1500, "shard": i} for i in range(6 if q else 16)]
    if prop in ("C03", "C09", "C12"):
        sh += [{"kind": "asmprog", "n": 40 if q else 700, "shard": i} for i in range(3 if q else 8)]
    if prop in ("C03", "C09"):
        # one LONG program (thorough: hit and access counters pass 2^16) with and without the cache, in both modes
        sh += [{"kind": "longprog", "shard": 0}]
    if prop in ("C03", "C09", "C10"):
        # LONG access histories on a bare memory system, judged by a light monitor (values + counters only): hot phases
        # in which two blocks of a set are used in turn for hundreds / tens of thousands of accesses while the other
        # resident blocks stay idle, then conflict misses; very large associativities
        sh += [{"kind": "longhist", "cfgi": i, "shard": i} for i in range(len(LONGHIST))]
    return sh


LONGHIST = [
    # (ib, bb, assoc, policy, wt, pen, accesses quick, accesses thorough, longest hot phase quick / thorough)
    # the first hot phase of the first configuration brings one set to 65 000 changes of its most recently used block;
    # the ordinary phases that follow (blocks touched, a few hundred alternating accesses, conflict misses) then carry it
    # across 2^16 with recently touched idle blocks around - where a wrapped 16-bit age stamp picks the wrong victim
    (0, 0, 4, "lru", False, 1, 76000, 150000, 65000, 65000),
    (0, 0, 512, "lru", True, 2, 4000, 12000, 300, 600),
    (0, 0, 300, "lru", False, 1, 3000, 9000, 300, 600),
    (1, 1, 3, "lru", False, 3, 12000, 150000, 700, 65000),
    (0, 1, 4, "plru", False, 1, 12000, 100000, 700, 40000),
    (1, 0, 8, "lru", True, 1, 12000, 100000, 700, 40000),
    (0, 0, 256, "plru", False, 1, 3000, 9000, 300, 600),
]


def run_longhist(spec, res, prop):
    """light monitor on a bare memory system: every read value against the flat memory, (hits, accesses, last_hit) and
    the cycle counter against the reference cache after every access; nothing else is looked at while it runs"""
    import fixedint

    ib, bb, assoc, policy, wt, pen, nq, nt, hq, ht = LONGHIST[spec["cfgi"]]
    q = spec["tier"] == "quick"
    n, hotmax = (nq, hq) if q else (nt, ht)
    rng = rng_for("cache", spec["tier"], spec["seed"], "longhist", spec["cfgi"])
    cfg = {"ib": ib, "bb": bb, "assoc": assoc, "policy": policy, "wt": wt, "pen": pen}
    m, pm = make_system(cfg)
    ref = RefCache(ib, bb, assoc, policy, wt)
    flat = FlatMem()
    bs, nsets = 4 << bb, 1 << ib
    blocks = {s_: [0x4000 + bs * nsets * k + bs * s_ for k in range(assoc + 3)] for s_ in range(nsets)}
    case = {"kind": "longhist", "cfgi": spec["cfgi"], "cfg": cfg, "seed": spec["seed"], "tier": spec["tier"]}
    cyc = 0
    done = 0
    first_phase = True

    def access(a, wr, v):
        nonlocal cyc, done
        done += 1
        where = "access #%d %s %#x" % (done, "write" if wr else "read", a)
        try:
            if wr:
                m.write_word(a, fixedint.UInt32(v))
                flat.write(a, 4, v)
            else:
                got = int(m.read_word(a))
                if got != flat.read(a, 4):
                    res.violation("C03", "read-mismatch", "long history (%r): %s returned %#x, flat memory holds %#x" % (cfg, where, got, flat.read(a, 4)), case)
                    return False
        except Exception as e:
            res.violation("C03", "access-error", "long history (%r): %s raised %r" % (cfg, where, e), case)
            return False
        hit, _ = ref.access(a, wr, counted=True)
        if not hit:
            cyc += pen
        st = m.get_cache_stats()
        got = (int(st["hits"]), int(st["accesses"]), bool(st["last_hit"]))
        want = (ref.hits, ref.accesses, bool(ref.last_hit))
        res.count("long_history_counter_checks")
        if got != want or pm.cycles != cyc:
            res.violation("C09", "counter-mismatch", "long history (%r): %s: (hits, accesses, last_hit) real=%r reference=%r, cycle counter %d reference %d" % (cfg, where, got, want, pm.cycles, cyc), case)
            return False
        return True

    while done < n:
        s_ = rng.randrange(nsets)
        bl = blocks[s_]
        # warm the set: touch a random number of distinct blocks (some ways may stay empty)
        for b in rng.sample(bl, rng.randint(2, min(len(bl), assoc))):
            if not access(b, rng.random() < 0.3, rng.getrandbits(32)):
                return
        # hot phase: a few blocks used in turn, the rest of the set idle
        hot = rng.sample(bl, 2 if first_phase else rng.choice([1, 2, 2, 2, 3]))
        L = hotmax if first_phase else rng.choice([3, 17, 130, 255, 256, 257, 300, 515, min(hotmax, 1030)])
        first_phase = False
        strict = L > 5000  # (the long phase alternates strictly: every access changes the most recently used block)
        for i in range(min(L, n - done + 8)):
            b = hot[i % len(hot)] if strict or rng.random() < 0.9 else rng.choice(hot)
            if not access(b, rng.random() < 0.25, i):
                return
        res.count("long_history_hot_phases")
        # conflict misses: the ways they fill are the policy's victims (resident tags way by way, as the public cache
        # representation shows them, against the reference cache) ...
        for b in rng.sample(bl, rng.randint(1, 3)):
            if not access(b, False, 0):
                return
        if assoc <= 16:
            res.count("long_history_tag_checks")
            tags_real = resident_view(m)[0]
            if tags_real != ref.resident_tags():
                res.violation("C10", "displaced-way", "long history (%r): after access #%d (a hot phase of %d accesses on %d blocks, then conflict misses) the resident tags by way are %r, the %s reference for this access history gives %r" % (cfg, done, L, len(hot), tags_real, policy, ref.resident_tags()), case)
                if prop == "C10":
                    return
                # (for the other properties the history goes on: the wrong victim shows in their own terms - a miss
                # where the reference cache has a hit - at the re-accesses below)
        # ... then every block of the set once more (a wrong victim also shows as a miss / a stale value)
        for b in rng.sample(bl, len(bl) if len(bl) <= 12 else 12):
            if not access(b, False, 0):
                return
        if assoc > 256:
            # large associativity: hits on high way numbers, then enough misses to push stale entries to the front
            for b in bl[:assoc]:
                if not access(b, False, 0):
                    return
            for b in rng.sample(bl[:assoc], 40) + bl[assoc:] + rng.sample(bl[:assoc], 60):
                if not access(b, False, 0):
                    return
    res.count("long_histories")
    res.evaluations += 1
    res.count("hits", ref.hits)
    res.count("misses", ref.accesses - ref.hits)
    res.nontrivial(h64(case))


def rand_cfg(rng, small=False):
    policy = rng.choice(["lru", "plru"])
    if small:
        ib, bb = rng.choice([0, 0, 1, 2]), rng.choice([0, 1, 2])
        assoc = rng.choice([1, 2, 4] if policy == "plru" else [1, 2, 3, 4])
    else:
        ib, bb = rng.choice([0, 0, 1, 2, 3, 4]), rng.choice([0, 0, 1, 2, 3])
        assoc = rng.choice([1, 2, 4, 8, 16] if policy == "plru" else [1, 2, 3, 4, 5, 6, 7, 8])
    return {"ib": ib, "bb": bb, "assoc": assoc, "policy": policy, "wt": rng.random() < 0.5, "pen": rng.choice([0, 1, 2, 5, 20])}


def gen_history(rng, nops, acct):
    cfg = rand_cfg(rng)
    bs = 4 << cfg["bb"]
    nsets = 1 << cfg["ib"]
    used_sets = rng.sample(range(nsets), min(nsets, rng.choice([1, 1, 2])))
    top = rng.random() < 0.15
    far = rng.random() < 0.25
    bases = []
    for s in used_sets:
        for k in range(cfg["assoc"] + 2):
            if top:
                # blocks counted down from the top of memory
                b = (1 << 32) - bs * nsets * (k + 1) + bs * s
            else:
                b = 0x4000 + bs * nsets * k * rng.choice([1, 1, 2]) + bs * s
                if far and k:
                    # conflicting blocks whose tags differ only in high bits (same set)
                    b = (b + bs * nsets * (1 << rng.choice([8, 12, 16, 20, 24]))) & M32
                    if b < 0x4000:
                        b += 0x4000 // (bs * nsets) * bs * nsets + bs * nsets
            bases.append(b)
    bases = sorted(set(bases))
    preload = {}
    if rng.random() < 0.6:
        for b in bases:
            if rng.random() < 0.6:
                for o in range(bs):
                    preload[str(b + o)] = rng.getrandbits(8)
    ops = []
    lastw, lastany = {}, [0]
    if rng.random() < 0.04:
        nops *= 5  # counters of one history pass 256 / 512
    for _ in range(nops):
        b = rng.choice(bases)
        w = rng.choice([1, 2, 4])
        a = b + rng.randrange(bs)
        if acct and (a & 3) + w > 4:
            a -= (a & 3) + w - 4
        k = rng.random()
        if k < 0.4:
            op = "r"
        elif k < 0.55:
            op = "ru"
        elif k < 0.96 or not acct:
            op = "w" if k < 0.985 else "reset"
        elif k < 0.97:
            op = "c"  # residency probe through the public Cache.contains(): not an access
        elif k < 0.978:
            op = "v"  # the memory view of the UI (wordwise_repr of the memory system): not an access either
        elif k < 0.985:
            op = "p"  # parser-style preload (direct write to lower memory) in the middle of a history
        else:
            op = "reset"  # also in accounting histories: after reset() the sets must behave like fresh ones
        spell = rng.random()
        if spell < 0.05:
            a -= 1 << 32
        elif spell < 0.1:
            a += 1 << 32
        v = rng.choice([0, M32, rng.getrandbits(32)])
        vc = rng.random()
        if vc < 0.3:
            # value coincidences: the value last stored here (silent store), the value last stored anywhere, the
            # address itself, its word / block number, its tag or index, a small count
            am = a & M32
            v = rng.choice([lastw.get((am, w), v), lastany[0], am, am >> 2, am // bs, am // (bs * nsets), (am // bs) % nsets, cfg["assoc"], len(ops) & 0xFF, w])
        v &= (1 << (8 * w)) - 1
        if op == "w":
            lastw[(a & M32, w)] = v
            lastany[0] = v
        if ops and rng.random() < 0.04:
            op, a, w, v = ops[-1]  # exact repeat of the previous operation
        elif op in ("r", "w") and rng.random() < 0.03:
            # the same set reached through an address BELOW the data range (a null-ish pointer): the lower memory rejects
            # the access; no block was accessed, so values, residency and the replacement order stay what they were
            op += "l"
            a = (a & (bs * nsets - 1) & ~3) + bs * nsets * rng.randrange(1, max(2, 0x3000 // (bs * nsets)))
            if w < 4:
                a += rng.randrange(0, 5 - w, w)
        ops.append([op, a, w, v])
    if preload and rng.random() < 0.12:
        # a memory that was only LOOKED at (uncounted reads: print-string ecall, visualisation) and is then reset
        pre = []
        for _ in range(rng.randint(1, 4)):
            b = rng.choice(bases)
            pre.append(["ru", b + rng.randrange(bs), 1, 0])
        ops = pre + [["reset", bases[0], 4, 0]] + ops
    return {"kind": "hist", "cfg": cfg, "bases": bases, "preload": preload, "ops": ops, "acct": acct}


_SYSTEMS_MADE = [0]
_OTHER_SYSTEMS = []


def make_system(cfg):
    from architecture_simulator.uarch.memory.memory import Memory, AddressingType
    from architecture_simulator.uarch.memory.write_through_memory_system import WriteThroughMemorySystem
    from architecture_simulator.uarch.memory.write_back_memory_system import WriteBackMemorySystem
    from architecture_simulator.uarch.riscv.riscv_performance_metrics import RiscvPerformanceMetrics

    pm = RiscvPerformanceMetrics()
    cls = WriteThroughMemorySystem if cfg["wt"] else WriteBackMemorySystem
    _SYSTEMS_MADE[0] += 1
    nb = _SYSTEMS_MADE[0] % 5 == 0
    if nb:
        # another memory system of the other write policy / another geometry lives in the same process
        ocls = WriteBackMemorySystem if cfg["wt"] else WriteThroughMemorySystem
        _OTHER_SYSTEMS.append(ocls(Memory(AddressingType.BYTE, 32, True, range(2**14, 2**32)), 1 - min(cfg["ib"], 1), min(cfg["bb"] + 1, 3), 2, RiscvPerformanceMetrics(), cfg["pen"] + 1, "plru" if cfg["policy"] == "lru" else "lru"))
    m = cls(Memory(AddressingType.BYTE, 32, True, range(2**14, 2**32)), cfg["ib"], cfg["bb"], cfg["assoc"], pm, cfg["pen"], cfg["policy"])
    if nb:
        o_ = _OTHER_SYSTEMS[-1]
        o_.write_word(0x4000, __import__("fixedint").UInt32(0xA5A5A5A5))
        o_.read_word(0x4010)
        del _OTHER_SYSTEMS[:-3]
    return m, pm


def resident_view(m):
    """public cache_repr() -> (per set list of tag|None by way, dict word_address -> value of resident words, dirty flags)"""
    cr = m.cache_repr()
    tags, words, dirty = [], {}, []
    for s in cr.sets:
        row, drow = [], []
        for b in s.blocks:
            if b.valid_bit == "1":
                row.append(int(b.tag, 16))
                drow.append(b.dirty_bit == "1")
                for (a, v) in b.address_value_list:
                    words[int(a, 16)] = int(v)
            else:
                row.append(None)
                drow.append(False)
        tags.append(row)
        dirty.append(drow)
    return tags, words, dirty


def view_of(cr):
    """CacheRepr -> per set list of tag|None by way"""
    return [[int(b.tag, 16) if b.valid_bit == "1" else None for b in s.blocks] for s in cr.sets]


def lru_age_mismatch(cr, pols):
    """'reports block ages consistent with that order': the ages shown for every set in the public cache
    representation must induce the order (oldest first) of the reference LRU fed the observed events; None if fine"""
    for sidx, (s_, pol) in enumerate(zip(cr.sets, pols)):
        rp = list(s_.replacement_status)
        n = len(rp)
        rk = pol.ranks()
        if len(set(rp)) != n or sorted(range(n), key=lambda b: rp[b]) != sorted(range(n), key=lambda b: rk[b]):
            return "set %d: reported LRU ages %r induce order %r, the observed access history gives (oldest first) %r" % (sidx, rp, sorted(range(n), key=lambda b: rp[b]), sorted(range(n), key=lambda b: rk[b]))
    return None


class PolicyObserver:
    """C10 at the set level, driven by observation only: fed the resident tags (public cache representation) before
    and after each access together with the accessed address, it infers 'hit on way w' or 'fill of way d', tells a
    per-set reference policy exactly these events, and demands at a fill that d is that policy's victim."""

    def __init__(self, ib, bb, assoc, policy, tags_now):
        from ..refmodels.policies import make_policy

        self.ib, self.bb, self.policy = ib, bb, policy
        self.pols = [make_policy(policy, assoc) for _ in range(1 << ib)]
        self.prev = tags_now
        self.fills = 0

    def split(self, addr):
        blk = (addr & M32) >> (2 + self.bb)
        return blk & ((1 << self.ib) - 1), blk >> self.ib

    def observe(self, tags, addr, cr=None):
        """returns None or (kind, message)"""
        r = self._observe(tags, addr)
        if r is None and cr is not None and self.policy == "lru" and not self.blind:
            self.age_checks += 1
            m_ = lru_age_mismatch(cr, self.pols)
            if m_:
                return ("lru-age-order", m_)
        return r

    blind = False
    age_checks = 0

    def _observe(self, tags, addr):
        prev, self.prev = self.prev, tags
        if addr is None:
            if prev != tags:
                self.blind = True  # something changed the sets that this observer was not told about
            return None
        idx, tag = self.split(addr)
        before, after = prev[idx], tags[idx]
        for sidx in range(len(tags)):
            if sidx != idx and prev[sidx] != tags[sidx]:
                return ("foreign-set-changed", "set %d changed although the access maps to set %d" % (sidx, idx))
        changed = [w for w in range(len(after)) if before[w] != after[w]]
        pol = self.pols[idx]
        if not changed:
            if tag in after:
                pol.access(after.index(tag))
            return None
        if len(changed) == 1 and after[changed[0]] == tag:
            self.fills += 1
            d, v = changed[0], pol.victim()
            if d != v:
                return ("displaced-way", "the fill displaced way %d (tags %r -> %r), the %s policy's victim for the observed access history of this set is way %d" % (d, before, after, self.policy, v))
            pol.access(d)
            return None
        return ("anomalous-set-update", "set %d changed from %r to %r" % (idx, before, after))


class HistMonitor:
    def __init__(self, case, res, prop):
        from architecture_simulator.util.integer_manipulation import ByteOffsetError
        from architecture_simulator.uarch.memory.memory import MemoryAddressError

        self.BOE, self.MAE = ByteOffsetError, MemoryAddressError
        self.case, self.res, self.prop = case, res, prop
        self.cfg = case["cfg"]
        self.m, self.pm = make_system(self.cfg)
        self.flat = FlatMem()
        self.ref = RefCache(self.cfg["ib"], self.cfg["bb"], self.cfg["assoc"], self.cfg["policy"], self.cfg["wt"])
        self.acct = case["acct"]
        self.cyc = 0
        self.bs = 4 << self.cfg["bb"]
        self.universe = [b + o for b in case["bases"] for o in range(self.bs)]
        self.written = set()
        self.flags = set()
        self.last_counted = None
        self.unc_between = False
        self.dead = False
        self.values_off = False
        self.pols = None
        self.tags_prev = None
        if self.acct:
            # the policy monitor needs to know every access event; a REJECTED access may or may not have touched
            # the replacement state (unspecified, DESIGN 5-r3), so it runs in accounting histories only
            self.reset_policies()

    def fail(self, prop, kind, msg, fatal=True, **extra):
        v_case = dict(self.case)
        self.res.violation(prop, kind, msg, v_case)
        if extra and self.res.violations and prop == self.res.prop:
            self.res.violations[-1].update(extra)
        # a violation of ANOTHER property does not stop the history unless the operation did not complete
        # (then flat memory / reference cache can no longer follow the real object)
        if fatal and (prop == self.res.prop or kind in ("access-error", "spurious-reject")):
            self.dead = True

    def preload(self):
        import fixedint

        for a, v in self.case["preload"].items():
            self.m.write_byte(int(a), fixedint.UInt8(v), True)
            self.flat.write(int(a), 1, v)
        if self.case["preload"]:
            self.res.count("preloaded_histories")
            st = self.m.get_cache_stats()
            if (int(st["hits"]), int(st["accesses"])) != (0, 0) or self.pm.cycles != 0:
                self.fail("C09", "preload-counted", "parser-style preload changed counters: %r cycles=%d" % (st, self.pm.cycles))

    def op(self, i, op, a, w, v):
        self._events_done = False
        self._op(i, op, a, w, v)
        if self.pols is not None and not self._events_done and not (self.dead and self.res.prop == "C10"):
            if op == "reset":
                pass  # policies were re-created right after the reset (before the read-back)
            elif op in ("p", "c", "v"):
                # a preload bypasses the cache / a residency probe is not an access: no event; tags must not change
                prev = self.tags_prev
                self.policy_events("preload", None)
                if prev is not None and prev != self.tags_prev:
                    self.fail("C09", "preload-changed-cache", "op #%d: a direct write to lower memory changed the resident tags" % i, fatal=False)
            else:
                self.policy_events("op #%d %s addr=%#x width=%d" % (i, op, a & M32, w), a)

    def _op(self, i, op, a, w, v):
        import fixedint

        res, m = self.res, self.m
        off = (a & 3)
        cross = off + w > 4
        RD = {1: m.read_byte, 2: m.read_halfword, 4: m.read_word}
        WR = {1: (m.write_byte, fixedint.UInt8), 2: (m.write_halfword, fixedint.UInt16), 4: (m.write_word, fixedint.UInt32)}
        where = "op #%d %s addr=%#x width=%d" % (i, op, a & M32, w)
        if op == "reset":
            m.reset()
            if self.pols is not None:
                self.reset_policies()
            self.flat = FlatMem()
            self.ref = RefCache(self.cfg["ib"], self.cfg["bb"], self.cfg["assoc"], self.cfg["policy"], self.cfg["wt"])
            st = m.get_cache_stats()
            self.ref.hits, self.ref.accesses, self.ref.last_hit = int(st["hits"]), int(st["accesses"]), st["last_hit"]
            self.cyc = self.pm.cycles
            res.count("resets")
            self.last_counted = None
            if self.acct:
                # counters after reset() are not claimed either way (re-synchronised above); resident tags are:
                tags, _, _ = resident_view(self.m)
                if any(t is not None for row in tags for t in row):
                    self.fail("C03", "reset-keeps-blocks", "%s: a block is still valid after reset()" % where)
                return
            self.readback(where)
            return
        if op == "v":
            before_ = resident_view(m)
            try:
                m.wordwise_repr()
            except Exception as e:
                self.fail("C09", "view-error", "%s: wordwise_repr() raised %r" % (where, e), fatal=False)
                return
            res.count("memory_views_mid_history")
            if resident_view(m) != before_:
                self.fail("C09", "view-changed-cache", "%s: asking for the memory view changed the resident blocks (an inspection is not an access; later hits/misses no longer match the access history)" % where, fatal=False)
            if self.acct:
                self.counters(where)
            return
        if op == "c":
            from architecture_simulator.uarch.memory.decoded_address import DecodedAddress

            _t, words_, _d = resident_view(m)
            try:
                got = bool(m.cache.contains(DecodedAddress(self.cfg["ib"], self.cfg["bb"], a)))
            except Exception as e:
                self.fail("C10", "contains-error", "%s: Cache.contains raised %r" % (where, e), fatal=False)
                return
            res.count("contains_probes")
            base = self.ref.block_base(a)
            want = any((base + 4 * k_) in words_ for k_ in range(1 << self.cfg["bb"]))
            if got != want:
                self.fail("C10", "contains-wrong", "%s: Cache.contains() = %r, the cache representation shows the block %s" % (where, got, "resident" if want else "absent"), fatal=False)
            if self.acct:
                self.counters(where)  # a probe is not an access: counters unchanged
            return
        if op == "p":
            # "bypass caches and statistics and directly write to lower memory": neither counters nor the
            # replacement state may change.  If the block is resident the cached copy is (by design) stale from now
            # on, so values / the C12 invariant are no longer judged in this history - accounting still is.
            if cross:
                a -= (a & 3) + w - 4
            _t, _words, _d = resident_view(self.m)  # residency as the REAL cache shows it
            if any((((a + k_) & M32) & ~3) in _words for k_ in range(w)) or self.ref.resident(a):
                self.values_off = True
                res.count("warm_preloads_on_resident_block")
            f, T = WR[w]
            try:
                f(a, T(v), True)
            except Exception as e:
                self.fail("C09", "preload-error", "%s raised %r" % (where, e))
                return
            self.flat.write(a & M32, w, v)
            res.count("warm_preloads")
            if self.acct:
                self.counters(where)
            return
        if op in ("rl", "wl"):
            try:
                if op == "rl":
                    got = RD[w](a, True)
                else:
                    f, T = WR[w]
                    got = f(a, T(v))
            except self.MAE:
                res.count("below_range_rejected")
                if self.acct:
                    # counters after a rejected access are not claimed either way: re-synchronise
                    st = m.get_cache_stats()
                    self.ref.hits, self.ref.accesses, self.ref.last_hit = int(st["hits"]), int(st["accesses"]), st["last_hit"]
                    self.cyc = self.pm.cycles
                if self.pols is not None:
                    self.policy_events(where + " (rejected by the lower memory)", a)
                    self._events_done = True
                if not self.acct:
                    self.readback(where + " (rejected by the lower memory)")
                if not self.dead:
                    self.invariant(where + " (rejected by the lower memory)")
                return
            except Exception as e:
                self.fail("C03", "access-error", "%s (below the data range) raised %r, an uncached memory raises MemoryAddressError" % (where, e), addr=a & M32)
                return
            self.fail("C03", "below-range-accepted", "%s lies below the data range but was accepted (returned %r); an uncached memory rejects it" % (where, got))
            self.dead = True
            return
        try:
            if op in ("r", "ru"):
                counted = op == "r"
                got = int(RD[w](a, counted))
            else:
                f, T = WR[w]
                f(a, T(v))
                got = None
        except self.BOE as e:
            if not cross:
                self.fail("C03", "spurious-reject", "%s stays within one word but was rejected: %r" % (where, e))
                return
            res.count("crossing_rejected")
            if self.pols is not None:
                self.policy_events(where + " (rejected)", a)
                self._events_done = True  # (the read-back below records its own events)
            # cache state / counters after a rejected access are unspecified: re-synchronise nothing,
            # judge only stored values (read everything back) and the C12 invariant
            self.readback(where + " (rejected)")
            if not self.dead:
                self.invariant(where + " (rejected)")
            return
        except Exception as e:
            self.fail("C03", "access-error", "%s raised %r instead of being answered" % (where, e), addr=a & M32)
            return
        if cross:
            # C03 is violated; the access took effect, so the history goes on (C12 judges the state it left)
            self.fail("C03", "crossing-accepted", "%s crosses a word boundary but was accepted (returned %r)" % (where, got), fatal=self.prop == "C03")
            if self.dead:
                return
            if op == "w":
                self.flat.write(a & M32, w, v)
            self.invariant(where + " (accepted although word-crossing)")
            return
        if op in ("r", "ru"):
            exp = self.flat.read(a & M32, w)
            res.count("reads_compared")
            if op == "ru":
                res.count("uncounted_reads")
                if self.last_counted:
                    self.unc_between = True
            if got != exp and not self.values_off:
                self.fail("C03", "read-mismatch", "%s returned %#x, flat memory holds %#x" % (where, got, exp))
                if self.dead:
                    return
            if any(((a + k) & M32) in self.written for k in range(w)) and w != 1:
                self.flags.add("mixed_read")
            hit, ev = self.ref.access(a, False, counted=(op == "r"))
        else:
            self.flat.write(a & M32, w, v)
            was_res = self.ref.resident(a)
            hit, ev = self.ref.access(a, True, counted=True)
            for k in range(w):
                self.written.add((a + k) & M32)
            if self.cfg["wt"] and not hit:
                res.count("write_miss_no_allocate")
                self.flags.add("write_miss")
            if self.cfg["wt"] and was_res:
                res.count("wt_resident_written")
                self.flags.add("c12nt")
        if ev is not None:
            res.count("evictions")
            if any((ev + k) in self.written for k in range(self.bs)):
                self.flags.add("evict_written")
        if op != "ru":
            res.count("hits" if hit else "misses")
            self.flags.add("hit" if hit else "miss")
            if not hit:
                self.cyc += self.cfg["pen"]
            if self.last_counted and self.unc_between:
                self.flags.add("unc_between")
            self.last_counted = True
            self.unc_between = False
        if self.acct:
            self.counters(where)
        if not self.dead:
            self.invariant(where)

    def policy_events(self, where, addr=None):
        """C10, set level, driven by OBSERVATION only (public cache_repr() before/after the operation): a way whose
        tag did not change but holds the accessed tag was hit -> the reference policy of that set is told so; a way
        whose tag changed to the accessed tag was filled -> it must be the reference policy's victim.  Independent
        of allocation rules, counters and values (those are C03/C09/C12)."""
        from ..refmodels.policies import make_policy

        tags, _, _ = resident_view(self.m)
        prev = self.tags_prev
        self.tags_prev = tags
        if prev is None or addr is None:
            return
        idx, tag = self.ref.split(addr)
        before, after = prev[idx], tags[idx]
        changed = [w for w in range(len(after)) if before[w] != after[w]]
        for sidx in range(len(tags)):
            if sidx != idx and prev[sidx] != tags[sidx]:
                self.fail("C03", "foreign-set-changed", "%s: set %d changed although the access maps to set %d" % (where, sidx, idx), fatal=False)
                return
        pol = self.pols[idx]
        if not changed:
            if tag in after:
                pol.access(after.index(tag))
            self.lru_ages(where)
            return
        if len(changed) == 1 and after[changed[0]] == tag:
            self.res.count("fills_observed")
            self.res.count("set_tag_checks")
            d = changed[0]
            v = pol.victim()
            if d != v:
                self.fail("C10", "displaced-way", "%s: the fill displaced way %d (tags %r -> %r), the %s policy's victim for the observed access history of this set is way %d" % (where, d, before, after, self.cfg["policy"], v))
                return
            pol.access(d)
            self.lru_ages(where)
            return
        self.fail("C03", "anomalous-set-update", "%s: set %d changed from %r to %r" % (where, idx, before, after), fatal=False)

    def lru_ages(self, where):
        if self.cfg["policy"] == "lru":
            self.res.count("reported_lru_age_checks")
            m_ = lru_age_mismatch(self.m.cache_repr(), self.pols)
            if m_:
                self.fail("C10", "lru-age-order", "%s: %s" % (where, m_))

    def reset_policies(self):
        from ..refmodels.policies import make_policy

        self.pols = [make_policy(self.cfg["policy"], self.cfg["assoc"]) for _ in range(1 << self.cfg["ib"])]
        self.tags_prev = resident_view(self.m)[0]

    def counters(self, where):
        st = self.m.get_cache_stats()
        got = (int(st["hits"]), int(st["accesses"]), bool(st["last_hit"]))
        want = (self.ref.hits, self.ref.accesses, bool(self.ref.last_hit))
        self.res.count("counter_checks")
        if got != want:
            self.fail("C09", "counter-mismatch", "%s: (hits, accesses, last_hit) real=%r reference=%r" % (where, got, want))
            return
        if self.cfg["pen"]:
            self.res.count("penalty_checks_nonzero")
        if self.pm.cycles != self.cyc:
            self.fail("C09", "penalty-mismatch", "%s: cycle counter %d, reference %d (penalty %d per counted miss)" % (where, self.pm.cycles, self.cyc, self.cfg["pen"]))
            return

    def readback(self, where):
        """whole universe read back (uncounted) must equal the flat memory"""
        if self.values_off:
            return
        self.res.count("readback_after_reject")
        for a in self.universe:
            if a & 3 == 0:
                try:
                    got = int(self.m.read_word(a, False))
                except Exception as e:
                    self.fail("C03", "access-error", "read-back after %s: read_word(%#x) raised %r" % (where, a, e), addr=a)
                    return
                self.ref.access(a, False, counted=False)
                if self.pols is not None:
                    self.policy_events("read-back of %#x after %s" % (a, where), a)
                if got != self.flat.read(a, 4):
                    self.fail("C03", "value-changed-by-rejected-access", "after %s word %#x reads %#x, flat memory holds %#x" % (where, a, got, self.flat.read(a, 4)))
                    return

    def invariant(self, where):
        """C12, evaluated at the quiescent point after an operation"""
        if self.values_off:
            return
        self.res.count("invariant_checks")
        tags, words, dirty = resident_view(self.m)
        back = self.m.memory
        wt = self.cfg["wt"]
        for a in self.universe:
            if a & 3:
                continue
            lg = self.flat.read(a, 4)
            bk = int(back.read_word(a))
            resident = a in words
            if wt:
                if bk != lg:
                    self.fail("C12", "wt-backing-stale", "%s: write-through backing word %#x = %#x, logical %#x" % (where, a, bk, lg))
                    return
                if resident and words[a] != bk:
                    self.fail("C12", "wt-resident-differs", "%s: resident word %#x = %#x, backing %#x" % (where, a, words[a], bk))
                    return
            else:
                if not resident and bk != lg:
                    self.fail("C12", "wb-lost-write", "%s: word %#x not resident, backing %#x, logical %#x (a written value was lost)" % (where, a, bk, lg))
                    return
                if resident and words[a] != lg:
                    self.fail("C12", "wb-resident-stale", "%s: resident word %#x = %#x, logical %#x" % (where, a, words[a], lg))
                    return
        # "The memory table shown to the user is therefore always current under write-through and may lag under
        # write-back only for resident blocks": the table of the memory SYSTEM (what the UI shows), unsigned column
        try:
            tab = {int(a_): int(t_[1]) for a_, t_ in self.m.wordwise_repr().items()}
        except Exception as e:
            self.fail("C12", "memory-table-error", "%s: wordwise_repr() of the memory system raised %r" % (where, e))
            return
        self.res.count("memory_tables_vs_logical")
        for a in self.universe:
            if a & 3:
                continue
            lg = self.flat.read(a, 4)
            if (wt or a not in words) and tab.get(a, 0) != lg:
                self.fail("C12", "memory-table-stale", "%s: the memory table shows %#x for word %#x, logical contents %#x (%s)" % (where, tab.get(a, 0), a, lg, "write-through" if wt else "write-back, block not resident"))
                return


def run_hist(case, res, prop):
    mon = HistMonitor(case, res, prop)
    mon.preload()
    ev0 = 0
    for i, (op, a, w, v) in enumerate(case["ops"]):
        if mon.dead:
            return
        mon.op(i, op, a, w, v)
    if mon.dead:
        return
    if mon.acct and prop in ("C09", "C03", "C10"):
        if not blind_replay(case, mon, res):
            return
    # end of history: everything reads back as the flat memory (also exercises read-allocate paths)
    mon.readback("end of history")
    if not mon.cfg["wt"] and "evict_written" in mon.flags:
        res.count("wb_dirty_evictions")
        mon.flags.add("c12nt")
    f = mon.flags
    h = h64(case)
    if prop == "C03" and "evict_written" in f and "mixed_read" in f:
        res.nontrivial(h)
    if prop == "C09" and {"hit", "miss", "unc_between"} <= f and ("write_miss" in f or not mon.cfg["wt"]):
        res.nontrivial(h)
    if prop == "C12" and "c12nt" in f:
        res.nontrivial(h)
    if prop == "C10" and mon.ref.evictions:
        res.nontrivial(h)


def blind_replay(case, mon, res):
    """The monitored system was looked at (cache representation, counters) after every operation.  The same
    history is replayed on a fresh system WITHOUT a single inspection in between; at the end its counters and cycle
    counter must be the ones of the monitored run (= the reference cache's) and its contents the flat memory's: a
    cache must not behave differently when nobody is watching."""
    import fixedint

    m2, pm2 = make_system(case["cfg"])
    for a, v in case["preload"].items():
        m2.write_byte(int(a), fixedint.UInt8(v), True)
    WR = {1: (m2.write_byte, fixedint.UInt8), 2: (m2.write_halfword, fixedint.UInt16), 4: (m2.write_word, fixedint.UInt32)}
    RD = {1: m2.read_byte, 2: m2.read_halfword, 4: m2.read_word}
    try:
        for (op, a, w, v) in case["ops"]:
            if (a & 3) + w > 4 and op in ("w", "r", "ru", "p"):
                a -= (a & 3) + w - 4 if op == "p" else 0
            if op == "r":
                RD[w](a)
            elif op == "ru":
                RD[w](a, False)
            elif op == "w":
                f, T = WR[w]
                f(a, T(v))
            elif op == "p":
                f, T = WR[w]
                f(a, T(v), True)
            elif op == "reset":
                m2.reset()
            elif op in ("rl", "wl"):
                try:
                    if op == "rl":
                        RD[w](a)
                    else:
                        f, T = WR[w]
                        f(a, T(v))
                except mon.MAE:
                    pass
    except Exception as e:
        mon.fail("C03", "unobserved-run-differs", "the same history raises %r when the cache is not inspected between the operations" % (e,), fatal=False)
        return True
    res.count("blind_replays")
    st, st2 = mon.m.get_cache_stats(), m2.get_cache_stats()
    a_ = (int(st["hits"]), int(st["accesses"]), mon.pm.cycles)
    b_ = (int(st2["hits"]), int(st2["accesses"]), pm2.cycles)
    if a_ != b_:
        mon.fail("C09", "unobserved-run-differs", "end of history: (hits, accesses, cycles) = %r when the cache representation is read after every operation, %r when the same history runs without any inspection" % (a_, b_))
        return False
    if not mon.values_off:
        for a in mon.universe:
            if not a & 3:
                got = int(m2.read_word(a, False))
                if got != mon.flat.read(a, 4):
                    mon.fail("C03", "unobserved-run-differs", "end of history, run without inspections: word %#x reads %#x, flat memory holds %#x" % (a, got, mon.flat.read(a, 4)), fatal=False)
                    return True
    return True


# ------------------------------------------------------------------------------------------- BFS

BFS_CFGS = [
    {"ib": 0, "bb": 0, "assoc": 1, "policy": "lru", "wt": False},
    {"ib": 0, "bb": 0, "assoc": 2, "policy": "lru", "wt": False},
    {"ib": 0, "bb": 0, "assoc": 2, "policy": "plru", "wt": False},
    {"ib": 1, "bb": 0, "assoc": 1, "policy": "lru", "wt": False},
    {"ib": 0, "bb": 1, "assoc": 1, "policy": "lru", "wt": False},
    {"ib": 0, "bb": 0, "assoc": 1, "policy": "lru", "wt": True},
    {"ib": 0, "bb": 0, "assoc": 2, "policy": "lru", "wt": True},
    {"ib": 0, "bb": 0, "assoc": 2, "policy": "plru", "wt": True},
    {"ib": 1, "bb": 0, "assoc": 1, "policy": "lru", "wt": True},
    {"ib": 0, "bb": 1, "assoc": 1, "policy": "lru", "wt": True},
]


def run_bfs(spec, res, prop):
    """explicit-state exploration on the REAL objects (branching by deepcopy); every transition is an
    operation observed by the same value + invariant monitors."""
    import fixedint

    cfg = dict(BFS_CFGS[spec["cfgi"]], pen=1)
    bs = 4 << cfg["bb"]
    blocks = [0x4000 + bs * (1 << cfg["ib"]) * k for k in range(cfg["assoc"] + 1)]
    universe = [b + o for b in blocks for o in range(bs)]
    ops = []
    acct = bool(spec.get("acct"))
    for b in blocks:
        if acct:  # accepted accesses only: counters and resident tags are compared after every transition
            ops += [("r", b, 4, 0), ("ru", b + 1, 1, 0), ("w", b, 4, 0x11223344), ("w", b + 1, 1, 0xAA), ("w", b + 2, 2, 0xBEEF), ("r", b + 2, 2, 0), ("ru", b, 4, 0)]
        else:
            ops += [("r", b, 4, 0), ("ru", b + 1, 1, 0), ("w", b, 4, 0x11223344), ("w", b + 1, 1, 0xAA), ("w", b + 2, 2, 0xBEEF), ("w", b + 3, 2, 0x1234), ("r", b + 2, 4, 0)]
    case0 = {"kind": "hist", "cfg": cfg, "bases": blocks, "preload": {}, "ops": [], "acct": acct}
    m0, pm0 = make_system(cfg)
    ref0 = RefCache(cfg["ib"], cfg["bb"], cfg["assoc"], cfg["policy"], cfg["wt"])

    def key(m, flat):
        tags, words, dirty = resident_view(m)
        cr = m.cache_repr()
        rs = tuple(repr(s.replacement_status) for s in cr.sets)
        back = tuple(int(m.memory.read_byte(a)) for a in universe)
        return (repr(tags), tuple(sorted(words.items())), repr(dirty), rs, back)

    seen = {key(m0, {})}
    mon0 = HistMonitor.__new__(HistMonitor)
    HistMonitor_init_light(mon0, case0, res, prop, m0, {}, universe, ref0 if acct else None)
    if acct:
        mon0.reset_policies()
    frontier = [(m0, {}, [], ref0, (mon0.pols, mon0.tags_prev))]
    trans = 0
    depth_reached = 0
    for d in range(spec["depth"]):
        nxt = []
        for m, flatb, path, rref, polst in frontier:
            for o in ops:
                c = copy.deepcopy(m)
                trans += 1
                mon = HistMonitor.__new__(HistMonitor)
                HistMonitor_init_light(mon, dict(case0, ops=path + [list(o)]), res, prop, c, flatb, universe, copy.deepcopy(rref) if acct else None)
                mon.pols, mon.tags_prev = copy.deepcopy(polst)
                mon.op(len(path), *o)
                if mon.dead:
                    res.transitions += trans
                    res.states += len(seen)
                    return
                kk = key(c, None)
                if kk not in seen:
                    seen.add(kk)
                    nxt.append((c, dict(mon.flat.b), path + [list(o)], mon.ref, (mon.pols, mon.tags_prev)))
        frontier = nxt
        depth_reached = d + 1
        if not frontier:
            break
    res.states += len(seen)
    res.transitions += trans
    res.count("bfs_transitions", trans)
    res.count("bfs_states", len(seen))
    res.evaluations += trans
    res.exhaustive = True
    res.extra["bfs"] = "explicit-state exploration to depth %d on %d tiny geometries (<=2 sets, <=2 ways, <=2-word blocks, ways+1 conflicting blocks, 7 operations per block incl. 2 word-crossing ones)" % (spec["depth"], len(BFS_CFGS))
    res.nontrivial(h64(["bfs", spec["cfgi"], spec["depth"]]))
    res.nontrivial(h64(["bfs-states", spec["cfgi"], len(seen)]))
    res.sample({"bfs_cfg": cfg, "depth": depth_reached, "states": len(seen), "transitions": trans, "ops_per_block": [list(o) for o in ops[:7]]}, 8)


def HistMonitor_init_light(mon, case, res, prop, m, flatb, universe, ref=None):
    from architecture_simulator.util.integer_manipulation import ByteOffsetError
    from architecture_simulator.uarch.memory.memory import MemoryAddressError

    mon.BOE, mon.MAE = ByteOffsetError, MemoryAddressError
    mon.case, mon.res, mon.prop = case, res, prop
    mon.cfg = case["cfg"]
    mon.m, mon.pm = m, m.performance_metrics
    mon.flat = FlatMem()
    mon.flat.b = dict(flatb)
    # residency is taken from the real cache_repr(); the tag-only reference is only needed for flags
    mon.ref = ref if ref is not None else RefCache(mon.cfg["ib"], mon.cfg["bb"], mon.cfg["assoc"], mon.cfg["policy"], mon.cfg["wt"])
    mon.acct = ref is not None
    mon.cyc = mon.pm.cycles  # consistent by construction: every earlier transition on this path was checked
    mon.bs = 4 << mon.cfg["bb"]
    mon.universe = universe
    mon.written = set()
    mon.flags = set()
    mon.last_counted = None
    mon.unc_between = False
    mon.dead = False
    mon.values_off = False
    mon.pols = None
    mon.tags_prev = None


# ------------------------------------------------------------------------------------------- programs


def word_ok_program(rng):
    """programs whose accesses stay within one word (aligned generator) and never fault"""
    if rng.random() < 0.55:
        prog, regs = G.structured_program(rng, size=rng.randint(4, 30), aligned=True)
    else:
        prog = G.soup_program(rng, rng.randint(2, 22), aligned=True, mem_w=0.3)
        regs = G.soup_regs(rng, bad_ecall=0)
    if rng.random() < 0.3:
        # print-string ecall: uncounted reads through the cache
        regs["17"] = 4
        regs["10"] = 0x4000 + rng.randrange(0, 32)
    return prog, regs


def run_prog(case, res, prop):
    """program with/without data cache in both modes; counters single vs five vs golden trace"""
    prog = {4 * i: d for i, d in enumerate(case["prog"])}
    seq = SeqRef(prog, case["regs"], case["mem"])
    r = seq.run(case["max_instr"])
    if r != "done":
        res.count("prog_skipped_fault_or_bound")
        return
    # reference cache fed the golden access sequence (ecall 4 string reads are uncounted accesses)
    cfg = case["dcache"]
    rc = RefCache(cfg["ib"], cfg["bb"], cfg["assoc"], cfg["policy"], cfg["wt"])
    x = SeqRef(prog, case["regs"], case["mem"])
    while not x.done():
        pc = x.pc
        d = prog[pc]
        if d["m"] == "ecall" and x.x[17] == 4:
            a = x.x[10]
            while True:
                rc.access(a, False, counted=False)
                if x.mem.rd(a, 1) == 0:
                    break
                a += 1
        rr = x.step()
        if rr["mem"]:
            rc.access(rr["mem"][1], rr["mem"][0] == "w", counted=True)
    results = {}
    ic = case.get("icache")
    # hazard detection off: the cache must be just as transparent for the interlock-free pipeline
    if case.get("hz_off"):
        fin = {}
        for dc in (None, cfg):
            c5 = {"kind": "pipe", "prog": case["prog"], "regs": case["regs"], "mem": case["mem"], "hz": False, "dcache": dc, "icache": ic, "max_instr": case["max_instr"]}
            ref = TimedRef(prog, case["regs"], case["mem"], interlock=False)
            ref.run(case["max_instr"])
            if ref.fault or ref.timeout or ref.crossing:
                # (a stale pointer of the interlock-free pipeline may be unaligned: a data cache rejects the
                # word-crossing access by design, an uncached memory accepts it - not a transparency matter)
                fin = None
                break
            out = pipe.run_five(c5, res, prop, ref)
            if out is None or out["rfault"] is not None:
                # value/order monitors (not timing/penalty ones - those are C07/C09) firing only with the cache on
                if dc is not None and fin.get(False) is not None and (out is not None or pipe.last_was_value_violation()):
                    res.violation("C03", "prog-result", "hazard detection off: the pipeline's value/order monitors are silent without data cache but fire / fault with it", case)
                    return
                fin = None
                break
            sim = out["sim"]
            fin[dc is not None] = (real_regs(sim), sim.state.output, sim.state.exit_code, pipe.mem_image(sim), bool(sim.is_done()))
        if fin:
            res.count("prog_runs_hz_off")
            if fin[True] != fin[False]:
                names = ["registers", "output", "exit code", "memory", "done"]
                res.violation("C03", "prog-result", "hazard detection off: data cache on/off differ in %s" % [names[i] for i in range(5) if fin[True][i] != fin[False][i]], case)
                return
    for mode in ("single", "five"):
        for dc in (None, cfg):
            if mode == "five":
                c5 = {"kind": "pipe", "prog": case["prog"], "regs": case["regs"], "mem": case["mem"], "hz": True, "dcache": dc, "icache": ic, "max_instr": case["max_instr"]}
                ref = TimedRef(prog, case["regs"], case["mem"], interlock=True)
                ref.run(case["max_instr"])
                out = pipe.run_five(c5, res, prop, ref)
                if out is None or out["rfault"] is not None:
                    if dc is None:
                        return  # not a cache matter (the pipeline monitors have recorded it under their own property)
                    if out is not None:
                        res.violation("C03", "prog-fault", "five-stage with dcache=%r raised %r on a fault-free program that runs without data cache" % (dc, out["rfault"]), case)
                    elif pipe.last_was_value_violation():
                        res.violation("C03", "prog-result", "five-stage: the value/order monitors are silent without data cache but fire with dcache=%r" % (dc,), case)
                    return
                sim = out["sim"]
            else:
                sim = make_riscv("single", dcache=dc, icache=ic)
                install_program(sim, case["prog"])
                set_regs(sim, case["regs"])
                preload_mem(sim, case["mem"])
                k = 0
                try:
                    while not sim.is_done() and k <= seq.n + 2:
                        sim.step()
                        k += 1
                except Exception as e:
                    res.violation("C03" if dc is not None else "C01", "prog-fault", "single-cycle with dcache=%r raised %r on a fault-free program" % (dc, e), case)
                    return
            st = sim.state.memory.get_cache_stats()
            results[(mode, dc is not None)] = {
                "regs": real_regs(sim),
                "out": sim.state.output,
                "exit": sim.state.exit_code,
                "done": bool(sim.is_done()),
                "stats": None if st is None else (int(st["hits"]), int(st["accesses"])),
                "cycles": sim.state.performance_metrics.cycles,
                "mem": pipe.mem_image(sim),
            }
    res.count("prog_runs_compared")
    base = results[("single", False)]
    want = {"regs": seq.x, "out": seq.out, "exit": seq.exit, "done": True, "mem": seq.mem.nonzero()}
    for k, r_ in sorted(results.items(), key=lambda kv: kv[0][1]):  # uncached runs first
        for f in ("regs", "out", "exit", "done", "mem"):
            if r_[f] != want[f]:
                res.violation("C03" if k[1] else ("C01" if k[0] == "single" else "C02"), "prog-result", "%s mode, data cache %s: %s differs from the uncached/sequential result" % (k[0], "on" if k[1] else "off", f), case)
                return
    s1, s5 = results[("single", True)]["stats"], results[("five", True)]["stats"]
    res.count("prog_stats_compared")
    golden = (rc.hits, rc.accesses)
    if s1 != s5 or s1 != golden or golden[1] != seq.loads + seq.stores:
        res.violation("C09", "prog-stats", "data-cache (hits, accesses): single-cycle %r, five-stage %r, reference cache on the golden trace %r; golden loads+stores = %d" % (s1, s5, golden, seq.loads + seq.stores), case)
        return
    pen = cfg["pen"]
    if ic is None and results[("single", True)]["cycles"] != seq.n + pen * (golden[1] - golden[0]):
        res.violation("C09", "prog-penalty", "single-cycle cycles %d != instructions %d + %d x %d misses" % (results[("single", True)]["cycles"], seq.n, pen, golden[1] - golden[0]), case)
        return
    h = h64(case)
    if prop == "C03" and golden[1] > golden[0] and seq.stores:
        res.nontrivial(h)
    if prop == "C09" and golden[0] and golden[1] > golden[0]:
        res.nontrivial(h)
    res.count("hits", golden[0])
    res.count("misses", golden[1] - golden[0])


def gen_asmprog_case(rng):
    """assembler-loaded program with a data segment (the parser preloads below the cache): every variable is read
    by name, strings are printed, some elements are stored to and read back"""
    from ..gen import asm_rv as A

    data = A.gen_data(rng, 6)
    while len(data) < 2:
        data = A.gen_data(rng, 6)
    vars_, img, _ = A.layout(data)
    stmts = []
    regs = list(range(5, 16)) + list(range(18, 31))
    for d in data:
        name = d["name"]
        addr, w, n = vars_[name]
        if d["type"] == "string":
            stmts += [{"k": "la", "rd": 10, "var": name, "idx": None}, {"k": "li", "rd": 17, "c": 4}, {"k": "ecall"}]
        for _ in range(rng.randint(1, 3)):
            idx = rng.randrange(n)
            m = {1: ["lb", "lbu"], 2: ["lh", "lhu"], 4: ["lw"]}[w]
            stmts.append({"k": "ldv", "m": rng.choice(m), "rd": rng.choice(regs), "var": name, "idx": idx})
            if rng.random() < 0.4:
                stmts.append({"k": "stv", "m": {1: "sb", 2: "sh", 4: "sw"}[w], "rs1": rng.choice(regs), "rs2": rng.choice(regs), "var": name, "idx": rng.randrange(n)})
    rng.shuffle(stmts) if rng.random() < 0.3 else None
    stmts += [{"k": "li", "rd": 17, "c": 93}, {"k": "mv", "rd": 10, "rs": rng.choice(regs)}, {"k": "ecall"}]
    return {"kind": "asmprog", "data": data, "stmts": stmts, "render": rng.getrandbits(30) + 1, "data_first": rng.random() < 0.5, "dcache": rand_cfg(rng, small=rng.random() < 0.6)}


def policy_invariant(m, wt, logical_word, word_addrs, where, res, case, need_logical=True):
    """C12's state invariant on a memory system inside a simulation.  logical_word(a) -> logical contents of the word at
    a (None: unknown, only the clauses that need no logical contents are evaluated).  Returns False after a violation."""
    tags, words, dirty = resident_view(m)
    back = m.memory
    res.count("invariant_checks")
    for a in sorted(set(word_addrs) | set(words)):
        try:
            bk = int(back.read_word(a))
        except Exception:
            continue
        lg = logical_word(a) if a in word_addrs else None
        if wt:
            if a in words and words[a] != bk:
                res.violation("C12", "wt-resident-differs", "%s: resident word %#x = %#x, backing %#x" % (where, a, words[a], bk), case)
                return False
            if lg is not None and bk != lg:
                res.violation("C12", "wt-backing-stale", "%s: backing word %#x = %#x, logical %#x" % (where, a, bk, lg), case)
                return False
        elif lg is not None:
            if a not in words and bk != lg:
                res.violation("C12", "wb-lost-write", "%s: word %#x not resident, backing %#x, logical %#x" % (where, a, bk, lg), case)
                return False
            if a in words and words[a] != lg:
                res.violation("C12", "wb-resident-stale", "%s: resident word %#x = %#x, logical %#x" % (where, a, words[a], lg), case)
                return False
    return True


def run_asmprog(case, res, prop):
    from ..gen import asm_rv as A

    text = A.Renderer(case["render"]).program({"data": case["data"], "stmts": case["stmts"], "labels": {}}, data_first=case["data_first"])
    outs = {}
    for mode in ("single", "five"):
        for dc in (None, case["dcache"]):
            sim = make_riscv(mode, dcache=dc)
            try:
                sim.load_program(text)
            except Exception as e:
                res.violation("C04", "load-failed", "generated data program failed to load: %r" % (e,), case)
                return
            if dc is not None:
                # C12: the loader's writes obey the configured policy's invariant (logical contents = the declared image)
                _v, img_, _e = A.layout(case["data"])
                wa = {a_ & ~3 for a_ in img_}
                res.count("invariant_checks_after_load")
                if not policy_invariant(sim.state.memory, dc["wt"], lambda a_: sum(img_.get(a_ + i_, 0) << (8 * i_) for i_ in range(4)), wa, "%s mode, right after load_program of a data program, %s configured" % (mode, "write-through" if dc["wt"] else "write-back"), res, case) and prop == "C12":
                    return
                # parser preloads leave the counters untouched
                st = sim.get_data_cache_stats()
                res.count("load_stats_checked")
                if (int(st["hits"]), int(st["accesses"])) != (0, 0) or sim.state.performance_metrics.cycles != 0:
                    res.violation("C09", "preload-counted", "after load_program the data cache reports %r and the cycle counter is %d" % ({k_: st[k_] for k_ in ("hits", "accesses", "last_hit")}, sim.state.performance_metrics.cycles), case)
                    if prop == "C09":
                        return
            k = 0
            try:
                while not sim.is_done() and k < 600:
                    sim.step()
                    k += 1
            except Exception as e:
                # both configurations must fail at the same instruction; the message text (which names the
                # block-aligned address when a cache fill faults) is not part of "registers, output, exit code"
                outs[(mode, dc is not None)] = ("EXC", type(e).__name__, getattr(e, "address", None), real_regs(sim), sim.state.output)
                continue
            if dc is not None and (mode, False) in outs and outs[(mode, False)][0] != "EXC":
                # C12 at the end of the run: logical contents = what the same program leaves in an uncached memory
                flat_ = outs[(mode, False)][3]
                wa = {a_ & ~3 for a_ in flat_}
                res.count("invariant_checks_at_program_end")
                if not policy_invariant(sim.state.memory, dc["wt"], lambda a_: sum(flat_.get(a_ + i_, 0) << (8 * i_) for i_ in range(4)), wa, "%s mode, end of an assembler-loaded data program, %s configured" % (mode, "write-through" if dc["wt"] else "write-back"), res, case) and prop == "C12":
                    return
            outs[(mode, dc is not None)] = (real_regs(sim), sim.state.output, sim.state.exit_code, pipe.mem_image(sim), bool(sim.is_done()))
    res.count("asm_programs_compared")
    names = ["registers", "output", "exit code", "memory", "done"]
    for mode in ("single", "five"):
        a, b = outs[(mode, False)], outs[(mode, True)]
        if a != b:
            what = [names[i] for i in range(5) if a[i] != b[i]] if a[0] != "EXC" and b[0] != "EXC" else [a[:2], b[:2]]
            res.violation("C03", "prog-result", "%s mode, assembler-loaded program with data segment: data cache on/off differ in %s" % (mode, what), case)
            return
    if prop in ("C03", "C09"):
        res.nontrivial(h64(case))


# ------------------------------------------------------------------------------------------- driver


def directed_cases():
    D = []
    # F2 witness shape: WT, neighbour word resident, crossing store on a miss of the other word
    D.append({"kind": "hist", "cfg": {"ib": 1, "bb": 0, "assoc": 1, "policy": "lru", "wt": True, "pen": 3}, "bases": [0x4000, 0x4004], "preload": {}, "acct": False,
              "ops": [["w", 0x4004, 4, 0x11111111], ["r", 0x4004, 4, 0], ["w", 0x4003, 2, 0xBEEF], ["r", 0x4004, 4, 0], ["w", 0x4002, 4, 0xCAFEBABE], ["r", 0x4000, 4, 0], ["r", 0x4001, 4, 0], ["ru", 0x4003, 2, 0]]})
    # WB dirty eviction chain, byte lanes
    D.append({"kind": "hist", "cfg": {"ib": 0, "bb": 1, "assoc": 2, "policy": "lru", "wt": False, "pen": 5}, "bases": [0x4000, 0x4008, 0x4010, 0x4018], "preload": {"16384": 1, "16392": 2}, "acct": True,
              "ops": [["w", 0x4001, 1, 0xAA], ["w", 0x4008, 2, 0xBBCC], ["ru", 0x4001, 1, 0], ["w", 0x4010, 4, 0xDDDDDDDD], ["r", 0x4000, 4, 0], ["w", 0x4018, 1, 0xEE], ["r", 0x4008, 4, 0], ["r", 0x4010, 4, 0], ["ru", 0x4018, 4, 0], ["r", 0x4018, 4, 0]]})
    # WT write-no-allocate then read-allocate, uncounted read between two counted ones
    D.append({"kind": "hist", "cfg": {"ib": 0, "bb": 0, "assoc": 2, "policy": "plru", "wt": True, "pen": 2}, "bases": [0x4000, 0x4004, 0x4008], "preload": {}, "acct": True,
              "ops": [["w", 0x4000, 4, 7], ["r", 0x4000, 4, 0], ["ru", 0x4004, 4, 0], ["r", 0x4004, 4, 0], ["w", 0x4000, 1, 9], ["r", 0x4008, 2, 0], ["r", 0x4000, 4, 0], ["w", 0x4008, 2, 5], ["r", 0x4008, 4, 0]]})
    # top of memory + spellings
    D.append({"kind": "hist", "cfg": {"ib": 0, "bb": 0, "assoc": 1, "policy": "lru", "wt": False, "pen": 0}, "bases": [0xFFFFFFFC, 0xFFFFFFF8], "preload": {}, "acct": True,
              "ops": [["w", -4, 4, 0x12345678], ["r", 0xFFFFFFFC, 4, 0], ["w", (1 << 32) + 0xFFFFFFF8, 2, 0xAAAA], ["r", 0xFFFFFFFC - (1 << 32), 1, 0], ["r", 0xFFFFFFF8, 4, 0]]})
    # huge block (block bits 13): block larger than the first data address (known finding K1)
    D.append({"kind": "hist", "cfg": {"ib": 0, "bb": 13, "assoc": 1, "policy": "lru", "wt": False, "pen": 0}, "bases": [], "preload": {}, "acct": False, "huge": True,
              "ops": [["w", 0x8000, 4, 0x55AA55AA], ["r", 0x8000, 4, 0], ["r", 0x10000, 4, 0], ["r", 0x8000, 4, 0], ["r", 0x4000, 4, 0]]})
    return D


def run_simpolicy_case(case, res):
    """C12 inside a running simulation: the data cache is configured through CacheOptions ("wt" / "wb" strings, as the
    UI does), a single-cycle simulation runs in lockstep with the sequential reference (which supplies the LOGICAL
    memory contents without touching the cache), and after every step the configured write policy's invariant is
    evaluated on the backing Memory, the public cache representation and the memory table."""
    prog = {4 * i: d for i, d in enumerate(case["prog"])}
    cfg = case["dcache"]
    wt = cfg["wt"]
    ref = SeqRef(prog, case["regs"], case["mem"])
    sim = make_riscv("single", dcache=cfg)
    install_program(sim, case["prog"])
    set_regs(sim, case["regs"])
    preload_mem(sim, case["mem"])
    m = sim.state.memory
    back = m.memory
    k = 0
    evictions = 0
    prev_res = set()
    while not ref.done() and k < case["max_instr"]:
        pc0 = ref.pc
        try:
            ref.step()
        except Exception:
            return  # golden fault: nothing to judge here
        try:
            sim.step()
        except Exception:
            return  # (a fault the reference does not have is C01/C03's finding)
        k += 1
        res.count("sim_policy_steps")
        tags, words, dirty = resident_view(m)
        if prev_res - set(words):
            evictions += 1
        prev_res = set(words)
        tab = {int(a_): int(t_[1]) for (a_, _h), t_ in sim.get_data_memory_entries()}
        touched = {a & ~3 for a in ref.mem.b}
        for a in touched:
            lg = ref.mem.rd(a, 4)
            bk = int(back.read_word(a))
            where = "step %d (%s), %s configured" % (k, instr_text(prog[pc0]) if pc0 in prog else "?", "write-through" if wt else "write-back")
            if wt:
                if bk != lg:
                    res.violation("C12", "wt-backing-stale", "%s: backing word %#x = %#x, logical %#x" % (where, a, bk, lg), case)
                    return
                if a in words and words[a] != bk:
                    res.violation("C12", "wt-resident-differs", "%s: resident word %#x = %#x, backing %#x" % (where, a, words[a], bk), case)
                    return
                if tab.get(a, 0) != lg:
                    res.violation("C12", "memory-table-stale", "%s: the memory table shows %#x for word %#x, logical %#x" % (where, tab.get(a, 0), a, lg), case)
                    return
            else:
                if a not in words and bk != lg:
                    res.violation("C12", "wb-lost-write", "%s: word %#x not resident, backing %#x, logical %#x" % (where, a, bk, lg), case)
                    return
                if a in words and words[a] != lg:
                    res.violation("C12", "wb-resident-stale", "%s: resident word %#x = %#x, logical %#x" % (where, a, words[a], lg), case)
                    return
                if a not in words and tab.get(a, 0) != lg:
                    res.violation("C12", "memory-table-stale", "%s: block not resident, the memory table shows %#x for word %#x, logical %#x" % (where, tab.get(a, 0), a, lg), case)
                    return
    res.count("sim_policy_programs")
    # the same program in the five-stage pipeline (its stores go through the stage-split memory_access path): the
    # configured policy's invariant at the end of the run, logical contents = the reference's final memory
    if ref.done():
        sim5 = make_riscv("five", dcache=cfg)
        install_program(sim5, case["prog"])
        set_regs(sim5, case["regs"])
        preload_mem(sim5, case["mem"])
        n5 = 0
        try:
            while not sim5.is_done() and n5 < 6 * case["max_instr"] + 50:
                sim5.step()
                n5 += 1
        except Exception as e5:
            n5 = -1
            # "at every point of any access history": also right after a step that failed (the failure itself is
            # C02/C03's business).  Logical contents are unknown here; write-through's 'every resident block is
            # identical to its backing block' needs none.
            res.count("invariant_checks_after_failed_step")
            if not policy_invariant(sim5.state.memory, wt, lambda a_: None, set(), "five-stage run, after step %d failed with %s, %s configured" % (n5, type(e5).__name__, "write-through" if wt else "write-back"), res, case):
                return
        if n5 >= 0 and sim5.is_done():
            m5 = sim5.state.memory
            tags, words, dirty = resident_view(m5)
            res.count("sim_policy_five_stage_ends")
            for a in {a_ & ~3 for a_ in ref.mem.b}:
                lg = ref.mem.rd(a, 4)
                bk = int(m5.memory.read_word(a))
                where = "end of the five-stage run, %s configured" % ("write-through" if wt else "write-back")
                if wt and bk != lg:
                    res.violation("C12", "wt-backing-stale", "%s: backing word %#x = %#x, logical %#x" % (where, a, bk, lg), case)
                    return
                if wt and a in words and words[a] != bk:
                    res.violation("C12", "wt-resident-differs", "%s: resident word %#x = %#x, backing %#x" % (where, a, words[a], bk), case)
                    return
                if not wt and a not in words and bk != lg:
                    res.violation("C12", "wb-lost-write", "%s: word %#x not resident, backing %#x, logical %#x" % (where, a, bk, lg), case)
                    return
                if not wt and a in words and words[a] != lg:
                    res.violation("C12", "wb-resident-stale", "%s: resident word %#x = %#x, logical %#x" % (where, a, words[a], lg), case)
                    return
    if evictions:
        res.count("sim_policy_programs_with_evictions")
        res.nontrivial(h64(case))


def run_case(prop, case, res):
    if case.get("kind") == "longhist":
        return run_longhist({"cfgi": case["cfgi"], "tier": case["tier"], "seed": case["seed"]}, res, prop)
    if case["kind"] == "simpolicy":
        run_simpolicy_case(case, res)
        return
    if case["kind"] == "hist":
        run_hist(case, res, prop)
    elif case["kind"] == "prog":
        run_prog(case, res, prop)
    elif case["kind"] == "bfs":
        run_bfs(case, res, prop)
    elif case["kind"] == "asmprog":
        run_asmprog(case, res, prop)


def run_shard(spec, res):
    prop = spec["prop"]
    rng = rng_for("cache", spec["tier"], spec["seed"], spec["kind"], spec["shard"])
    if spec["kind"] == "directed":
        for c in directed_cases():
            guarded(run_case, prop, c, res)
            res.evaluations += 1
        return
    if spec["kind"] == "bfs":
        run_bfs(spec, res, prop)
        return
    if spec["kind"] == "longhist":
        guarded(run_case, prop, {"kind": "longhist", "cfgi": spec["cfgi"], "tier": spec["tier"], "seed": spec["seed"]}, res)
        return
    if spec["kind"] == "longprog":
        c = pipe.long_case(True, 2500 if spec["tier"] == "quick" else 9000)
        case = {"kind": "prog", "prog": c["prog"], "regs": c["regs"], "mem": c["mem"], "dcache": c["dcache"], "icache": c["icache"], "max_instr": 200000}
        guarded(run_case, prop, case, res)
        res.evaluations += 1
        res.count("long_programs")
        return
    for it in range(spec["n"]):
        if spec["kind"] == "hist":
            acct = prop in ("C09", "C10") or rng.random() < 0.35
            case = gen_history(rng, spec["ops"], acct)
        elif spec["kind"] == "asmprog":
            case = gen_asmprog_case(rng)
        elif spec["kind"] == "simpolicy":
            prog, regs = word_ok_program(rng)
            case = {"kind": "simpolicy", "prog": prog, "regs": regs, "mem": G.init_mem(rng), "dcache": rand_cfg(rng, small=True), "max_instr": 250}
        else:
            prog, regs = word_ok_program(rng)
            case = {"kind": "prog", "prog": prog, "regs": regs, "mem": G.init_mem(rng), "dcache": rand_cfg(rng, small=rng.random() < 0.7), "max_instr": 250}
            if rng.random() < 0.3:
                ic = rand_cfg(rng, small=True)
                case["icache"] = {k: ic[k] for k in ("ib", "bb", "assoc", "policy", "pen")}
            if rng.random() < 0.35:
                case["hz_off"] = True
        guarded(run_case, prop, case, res)
        res.evaluations += 1
        if it < 1:
            res.sample({k: (v if k != "ops" else v[:12] + ["... %d ops" % len(v)]) for k, v in case.items() if k != "preload"}, 4)
