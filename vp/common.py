"""Shared plumbing: environment guard, case hashing, shard result container, real-object helpers."""
import hashlib
import json
import os
import random
import sys
import time

VERIF = os.path.dirname(os.path.dirname(os.path.abspath(__file__)))
REPO = os.environ.get("VERIF_REPO", "/repo")
M32 = 0xFFFFFFFF


def repo_guard():
    """The checks must observe the current working tree of /repo - never an installed copy."""
    import architecture_simulator

    f = os.path.realpath(architecture_simulator.__file__)
    if not f.startswith(os.path.realpath(REPO) + os.sep):
        raise Inconclusive("architecture_simulator imported from %s, not from %s" % (f, REPO))
    return f


class Inconclusive(Exception):
    pass


def guarded(fn, prop, case, res):
    """run one case; an exception RAISED INSIDE the repository's code that reaches the harness unhandled means the
    code under observation failed where the workload requires an answer -> violation with the case as witness.
    An exception raised in harness code (e.g. a private attribute vanished in a refactoring) stays a harness
    error (inconclusive), never a verdict."""
    import traceback

    try:
        fn(prop, case, res)
    except Inconclusive:
        raise
    except Exception as e:
        tb = traceback.extract_tb(e.__traceback__)
        root = os.path.realpath(REPO) + os.sep
        if tb and os.path.realpath(tb[-1].filename).startswith(root):
            fr = tb[-1]
            res.violation(prop, "unexpected-exception", "the repository raised %s: %s at %s:%d (%s) where the workload requires an answer" % (type(e).__name__, str(e)[:200], fr.filename[len(root):], fr.lineno, fr.name), case)
        else:
            raise


class AlarmTimeout(Exception):
    pass


def with_alarm(seconds, fn, *a, **kw):
    """run fn under a watchdog counting the CPU time of this process (ITIMER_PROF), not wall-clock time: a loaded
    machine cannot make it fire, a non-terminating call does (shards are single-threaded); raises AlarmTimeout.
    A call that blocks without burning CPU is left to the per-shard wall-clock watchdog (inconclusive)."""
    import signal

    def _h(signum, frame):
        raise AlarmTimeout()

    old = signal.signal(signal.SIGPROF, _h)
    signal.setitimer(signal.ITIMER_PROF, seconds)
    try:
        return fn(*a, **kw)
    finally:
        signal.setitimer(signal.ITIMER_PROF, 0)
        signal.signal(signal.SIGPROF, old)


def h64(obj):
    """stable 64-bit hash of a JSON-serialisable object"""
    s = json.dumps(obj, sort_keys=True, separators=(",", ":"), default=str)
    return int.from_bytes(hashlib.blake2b(s.encode(), digest_size=8).digest(), "big")


def rng_for(*parts):
    return random.Random(":".join(str(p) for p in parts))


class Result:
    """What one shard reports back.  Everything is JSON-serialisable."""

    MAX_HASHES = 400000

    def __init__(self, prop):
        self.prop = prop
        self.evaluations = 0
        self.counters = {}
        self.nt = set()  # hashes of distinct non-trivial cases
        self.samples = []
        self.violations = []  # dict(prop, kind, msg, case)
        self.other = {}  # violations attributed to other properties: prop -> count
        self.other_first = {}
        self.inconclusive = []
        self.states = 0
        self.transitions = 0
        self.exhaustive = None
        self.extra = {}
        self.t0 = time.time()

    def count(self, key, n=1):
        self.counters[key] = self.counters.get(key, 0) + n

    def nontrivial(self, case_hash):
        if len(self.nt) < self.MAX_HASHES:
            self.nt.add(case_hash)

    def sample(self, case, limit=3):
        if len(self.samples) < limit:
            self.samples.append(case)

    def violation(self, prop, kind, msg, case):
        """record a violation of property `prop`; only those of self.prop decide this check."""
        if prop == self.prop:
            v = {"prop": prop, "kind": kind, "msg": str(msg)[:1500], "case": case}
            # occurrences of an OPEN known finding must not use up the places of this list (a directed corpus can
            # produce dozens of them): two per finding are kept for the KNOWN-FINDING line, the rest is only counted
            try:
                from . import known as _known

                e = _known.classify(v)
            except Exception:
                e = None
            if e is not None:
                self.count("known_finding_%s_occurrences" % e.get("id", "?"))
                kept = sum(1 for x in self.violations if x.get("_known") == e.get("id"))
                if kept < 2:
                    v["_known"] = e.get("id")
                    self.violations.append(v)
            elif sum(1 for x in self.violations if not x.get("_known")) < 25:
                self.violations.append(v)
            self.count("violations_total")
        else:
            self.other[prop] = self.other.get(prop, 0) + 1
            self.other_first.setdefault(prop, {"kind": kind, "msg": str(msg)[:400]})

    def to_json(self):
        return {
            "prop": self.prop,
            "evaluations": self.evaluations,
            "counters": self.counters,
            "nt": sorted(self.nt),
            "samples": self.samples,
            "violations": self.violations,
            "other": self.other,
            "other_first": self.other_first,
            "inconclusive": self.inconclusive,
            "states": self.states,
            "transitions": self.transitions,
            "exhaustive": self.exhaustive,
            "extra": self.extra,
            "wall_s": time.time() - self.t0,
        }


# ------------------------------------------------------------------ helpers around the real objects


def cache_options(cfg):
    from architecture_simulator.uarch.memory.cache import CacheOptions

    # configuration strings arrive from JSON / the UI: equal to "wt", "plru", ... but not the interned literals
    fresh = lambda t: "".join(list(t))
    if not cfg:
        return CacheOptions(False, 0, 0, 1, fresh("wb"), fresh("lru"), 0)
    return CacheOptions(
        enable=True,
        num_index_bits=cfg["ib"],
        num_block_bits=cfg["bb"],
        associativity=cfg["assoc"],
        cache_type=fresh("wt" if cfg.get("wt") else "wb"),
        replacement_strategy=fresh(cfg.get("policy", "lru")),
        miss_penalty=cfg.get("pen", 0),
    )


_NEIGHBOURS = []  # a few other simulations kept alive in the process (see make_riscv)
_MADE = [0, 0]


_WEBGUI = [None]


def _mk(mode, hz, dcache, icache, via=None):
    from architecture_simulator.simulation.riscv_simulation import RiscvSimulation

    # every third simulation is built the way the web front end builds it (gui.webgui.get_riscv_simulation): a
    # configuration must mean the same however the simulation was constructed
    if _WEBGUI[0] is None:
        try:
            from architecture_simulator.gui import webgui

            _WEBGUI[0] = getattr(webgui, "get_riscv_simulation", False)
        except Exception:
            _WEBGUI[0] = False
    _MADE[1] += 1
    if via is None:
        via = "webgui" if _MADE[1] % 3 == 0 else "direct"
    if _WEBGUI[0] and via == "webgui":
        try:
            sim = _WEBGUI[0]("".join(list("five_stage_pipeline" if mode == "five" else "single_stage_pipeline")), hz, cache_options(dcache), cache_options(icache))
            sim._vp_via = "webgui"
            return sim
        except Exception:
            _WEBGUI[0] = False  # this tree's front-end constructor cannot be called this way: use the direct path only
    sim = _mk_direct(mode, hz, dcache, icache)
    sim._vp_via = "direct"
    return sim


def _mk_direct(mode, hz, dcache, icache):
    from architecture_simulator.simulation.riscv_simulation import RiscvSimulation

    return RiscvSimulation(
        mode="".join(list("five_stage_pipeline" if mode == "five" else "single_stage_pipeline")),
        detect_data_hazards=hz,
        data_cache=cache_options(dcache),
        instruction_cache=cache_options(icache),
    )


def make_riscv(mode="single", hz=True, dcache=None, icache=None, via=None):
    """the simulation under test.  Every fifth call also builds - one before, one after it - a simulation with the
    OPPOSITE configuration (other hazard flag, other write policy / replacement policy, caches swapped) and keeps it
    alive: a simulation's configuration is its own and must not depend on what else lives in the process."""
    _MADE[0] += 1
    nb = _MADE[0] % 5 == 0

    def other(c):
        if not c:
            return {"ib": 1, "bb": 1, "assoc": 2, "policy": "plru", "wt": True, "pen": 3}
        return dict(c, wt=not c.get("wt"), policy="plru" if c.get("policy", "lru") == "lru" and c["assoc"] & (c["assoc"] - 1) == 0 else "lru", pen=c.get("pen", 0) + 2)

    if nb:
        _NEIGHBOURS.append(_mk("five", not hz, other(dcache), other(icache)))
    sim = _mk(mode, hz, dcache, icache, via)  # via: build a twin the same way its partner was built
    if nb:
        _NEIGHBOURS.append(_mk("five" if mode != "five" else "single", not hz, other(icache), other(dcache)))
        del _NEIGHBOURS[:-4]
    return sim


def make_riscv_at(mode, ibase, hz=True, dcache=None, size=0x3000, icache=None):
    """a simulation whose instruction memory was given another address range (public constructor arguments): the
    program is placed, and execution starts, at the first address of that range"""
    from architecture_simulator.simulation.riscv_simulation import RiscvSimulation
    from architecture_simulator.uarch.riscv.riscv_architectural_state import RiscvArchitecturalState
    from architecture_simulator.uarch.memory.instruction_memory import InstructionMemory

    pm = "".join(list("five_stage_pipeline" if mode == "five" else "single_stage_pipeline"))
    st = RiscvArchitecturalState(pipeline_mode=pm, detect_data_hazards=hz, instruction_memory=InstructionMemory(address_range=range(ibase, ibase + size)), data_cache_options=cache_options(dcache))
    if icache:
        # the caller puts an instruction cache in front of its own instruction memory (whose range need not be a
        # multiple of the block size)
        from architecture_simulator.uarch.memory.instruction_memory_cache_system import InstructionMemoryCacheSystem

        st.instruction_memory = InstructionMemoryCacheSystem(InstructionMemory(address_range=range(ibase, ibase + size)), icache["ib"], icache["bb"], icache["assoc"], st.performance_metrics, icache.get("pen", 0), icache["policy"])
    return RiscvSimulation(state=st, mode=pm)


_DECOYS = {}


def decoy_riscv_touch():
    """ANOTHER live RISC-V simulation with other register, memory and program contents is looked at (all its tables) in
    between the operations on the simulation under test: what a simulation shows and does is its own, whatever else
    lives - and is used - in the process."""
    try:
        _decoy_riscv_touch()
    except Exception:
        _DECOYS.pop("rv", None)  # whatever is wrong with the decoy is not the finding of the check that uses it


def _decoy_riscv_touch():
    d = _DECOYS.get("rv")
    _DECOYS["rv_n"] = _DECOYS.get("rv_n", 0) + 1
    if d is None or _DECOYS["rv_n"] % 64 == 0:
        # (a FRESH one every now and then; it never finishes: all its registers and two data words keep changing)
        d = _DECOYS["rv"] = _mk_direct("single", True, None, None)
        d.load_program(".data\ndq_: .word 0x51525354, 7, 0x80000001\ndh_: .half 0x7172, 3\n.text\nagain_:\n" + "\n".join("addi x%d, x%d, %d" % (r, r, 1000 + 37 * r) for r in range(1, 32)) + "\nsw x5, -8(x0)\nsb x6, -3(x0)\nbeq x0, x0, again_")
    for _ in range(3):
        d.step()
    d.get_register_entries()
    d.get_data_memory_entries()
    d.get_instruction_memory_entries()
    d.state.instruction_memory.get_representation()


def decoy_toy_touch():
    """the same for TOY: another live machine is advanced by one HALF cycle and looked at"""
    try:
        _decoy_toy_touch()
    except Exception:
        _DECOYS.pop("toy", None)


def _decoy_toy_touch():
    d = _DECOYS.get("toy")
    if d is None:
        from architecture_simulator.simulation.toy_simulation import ToySimulation

        d = _DECOYS["toy"] = ToySimulation()
        d.load_program("top_:\nLDA 0x7F1\nADD 0x7F2\nSUB 0x7F3\nOR 0x7F4\nAND 0x7F5\nXOR 0x7F6\nSTO 0x7F7\nNOT\nINC\nDEC\nNOP\nZRO\nBRZ top_\n")
    d.single_step()
    d.get_register_representations()
    d.get_memory_table_entries()
    d.get_toy_svg_update_values()


def build_instr(d, addr=0):
    """instruction description dict -> real instruction object (constructed directly, no assembler)."""
    from architecture_simulator.isa.riscv.rv32i_instructions import instruction_map

    cls = instruction_map[d["m"]]
    m = d["m"]
    if m == "ecall":
        return cls()
    if m == "jal":
        return cls(rd=d["rd"], imm=d["imm"], abs_addr=addr + d["imm"])
    kw = {k: d[k] for k in ("rd", "rs1", "rs2", "imm") if k in d}
    return cls(**kw)


_INSTALLS = [0]


def install_program(sim, instrs, base=0):
    """write directly constructed instructions at consecutive addresses from `base`.  In every third program equal
    instructions are ONE object stored at several addresses (what `write_instructions([ADDI(...)] * 3)` gives a caller):
    an instruction is what it says, not which object says it."""
    im = sim.state.instruction_memory
    _INSTALLS[0] += 1
    shared = {} if _INSTALLS[0] % 3 == 0 else None
    for i, d in enumerate(instrs):
        if shared is not None and d["m"] != "jal":
            key = repr(sorted(d.items()))
            if key not in shared:
                shared[key] = build_instr(d, base + 4 * i)
            im.write_instruction(base + 4 * i, shared[key])
        else:
            im.write_instruction(base + 4 * i, build_instr(d, base + 4 * i))


def set_regs(sim, regs):
    import fixedint

    for k, v in (regs or {}).items():
        sim.state.register_file.registers[int(k)] = fixedint.UInt32(v & M32)


def preload_mem(sim, mem):
    """initial data memory, written below the cache (the parser's path)."""
    import fixedint

    for a, v in (mem or {}).items():
        sim.state.memory.write_byte(int(a), fixedint.UInt8(v), True)


def real_regs(sim):
    return [int(x) for x in sim.state.register_file.registers]


def backing_memory(sim):
    m = sim.state.memory
    return getattr(m, "memory", m)


def logical_bytes(sim, addrs):
    """logical memory contents (read through the memory system, uncounted) at the given addresses"""
    out = {}
    m = sim.state.memory
    for a in addrs:
        out[a] = int(m.read_byte(a, False))
    return out


def instr_text(d):
    m = d["m"]
    if m == "ecall":
        return "ecall"
    if "rs2" in d and "rd" in d:
        return "%s x%d, x%d, x%d" % (m, d["rd"], d["rs1"], d["rs2"])
    if m in ("lb", "lh", "lw", "lbu", "lhu"):
        return "%s x%d, %d(x%d)" % (m, d["rd"], d["imm"], d["rs1"])
    if m in ("sb", "sh", "sw"):
        return "%s x%d, %d(x%d)" % (m, d["rs2"], d["imm"], d["rs1"])
    if m in ("beq", "bne", "blt", "bge", "bltu", "bgeu"):
        return "%s x%d, x%d, %d" % (m, d["rs1"], d["rs2"], d["imm"])
    if m in ("lui", "auipc"):
        return "%s x%d, %d" % (m, d["rd"], d["imm"])
    if m == "jal":
        return "jal x%d, %+d" % (d["rd"], d["imm"])
    return "%s x%d, x%d, %d" % (m, d["rd"], d["rs1"], d["imm"])
