"""R2 - the documented five-stage schedule as timestamps (no latches, no stage functions).

For the k-th dynamic instruction computes IF, IDf (first decode cycle), IDl (last decode cycle),
EXf, EXl, MEM=EXl+1, WB=EXl+2 by a recurrence, executes R1 with the operand values visible at IDl and
records the retire event (WB, pc), the store event (MEM, ...), the output event (EXl, text).

Rules (DESIGN.md section 3, R2):
  * one fetch per cycle; after a taken branch / JAL / JALR p fetch resumes at MEM(p)+1
  * interlock (hazard detection on): a source register != x0 that is the destination of one of the
    two instructions ahead (in EX or MEM while this one is first decoded) -> 2 bubbles; no forwarding
  * registers are written before they are read within a cycle (visible to decode at cycle >= WB)
  * ecall is held in EX until all older instructions have left MEM; ecall reads a7/a0 when it
    finally executes; the instruction behind a waiting ecall is re-decoded when the wait ends
  * total cycles = WB(last retired)
"""
from .rv32 import RefMem, Fault, execute, srcs, dest, M32


class TimedRef:
    def __init__(self, prog, regs=None, mem=None, interlock=True):
        self.prog = prog
        self.interlock = interlock
        self.mem = RefMem(mem)
        self.init = [0] * 32
        for k, v in (regs or {}).items():
            if int(k):
                self.init[int(k)] = v & M32
        self.writes = [[] for _ in range(32)]  # per register: (wb_cycle, value) program order
        self.out = ""
        self.outs = []  # (cycle, text)
        self.stores = []  # (cycle, addr, n, value)
        self.loads = 0
        self.exit = None
        self.exit_cycle = None
        self.retire = []  # (cycle, pc)
        self.sched = []  # per dynamic instr: dict(pc, IF, IDf, IDl, EXf, EXl)
        self.cycles = 0
        self.branches = 0
        self.calls = 0
        self.fault = None  # (pc, kind, cycle)
        self.id_stalls = 0
        self.ex_stalls = 0
        self.flushes = 0
        self.stale_reads = 0  # operand read that differs from the sequential value (interlock off)
        self.timeout = False
        self.wrong_path_ecall_stalls = 0
        self.crossing = 0  # accesses that cross a word boundary (a data cache rejects them by design)

    def read(self, reg, t):
        """value of reg visible to a decode in cycle t (write-back of cycle t already done)."""
        if reg == 0:
            return 0
        w = self.writes[reg]  # in write-back order; reads ask about recent cycles: scan from the end
        for i in range(len(w) - 1, -1, -1):
            if w[i][0] <= t:
                return w[i][1]
        return self.init[reg]

    def latest(self, reg):
        if reg == 0:
            return 0
        w = self.writes[reg]
        return w[-1][1] if w else self.init[reg]

    def regs_at(self, t):
        return [self.read(i, t) for i in range(32)]

    def run(self, max_instr=10000):
        pc = 0
        prev = None
        hist = []  # (EXl, EXf, dest) of older instructions, program order
        n = 0
        while pc in self.prog:
            if n >= max_instr:
                self.timeout = True
                return
            d = self.prog[pc]
            if prev is None:
                IF, IDf = 1, 2
            elif prev["redirect"]:
                IF = prev["EXl"] + 2  # MEM(prev)+1
                IDf = IF + 1
            else:
                IF = prev["IDf"]
                IDf = prev["IDl"] + 1
            IDl = IDf
            ss = [s for s in srcs(d) if s != 0]
            hazard = False
            for (exl, exf, dst) in hist[-2:]:
                if dst is not None and dst != 0 and dst in ss and exf in (IDf, IDf - 1):
                    hazard = True
            behind_waiting_ecall = prev is not None and not prev["redirect"] and prev.get("ecall_wait_at") == IDf
            if behind_waiting_ecall:
                IDl = IDf + 2
            elif hazard and self.interlock:
                IDl = IDf + 2
                self.id_stalls += 1
            EXf = IDl + 1
            EXl = EXf
            ecall_wait_at = None
            if d["m"] == "ecall":
                for (exl, exf, dst) in hist[-2:]:
                    if exl in (EXf - 1, EXf - 2):
                        EXl = EXf + 2
                        ecall_wait_at = EXf
                        self.ex_stalls += 1
                        break
            ops = tuple(self.read(s, IDl) for s in srcs(d))
            if any(self.read(s, IDl) != self.latest(s) for s in srcs(d)):
                self.stale_reads += 1
            try:
                r = execute(d, pc, ops, self.mem, lambda i: self.read(i, EXl))
            except Fault as f:
                self.fault = (pc, f.kind, EXl if f.kind == "ecall" or d["m"] == "ecall" else EXl + 1)
                self.sched.append({"pc": pc, "IF": IF, "IDf": IDf, "IDl": IDl, "EXf": EXf, "EXl": EXl})
                return
            WB = EXl + 2
            if r["mem"] and (r["mem"][1] & 3) + r["mem"][2] > 4:
                self.crossing += 1
            if r["wr"]:
                self.writes[r["wr"][0]].append((WB, r["wr"][1]))
            if r["out"] is not None:
                self.out += r["out"]
                self.outs.append((EXl, r["out"]))
            if r["kind"] == "store":
                self.stores.append((EXl + 1,) + tuple(r["mem"][1:]))
            if r["kind"] == "load":
                self.loads += 1
            if r["kind"] == "branch" and r["taken"]:
                self.branches += 1
            if r["kind"] == "jal":
                self.calls += 1
            if r["taken"]:
                self.flushes += 1
                # a wrong-path ecall directly behind a taken transfer reaches EX while the transfer
                # is in MEM and raises one (harmless) wait before it is flushed
                if self.prog.get(pc + 4, {}).get("m") == "ecall":
                    self.wrong_path_ecall_stalls += 1
            self.retire.append((WB, pc))
            self.sched.append({"pc": pc, "IF": IF, "IDf": IDf, "IDl": IDl, "EXf": EXf, "EXl": EXl})
            self.cycles = WB
            hist.append((EXl, EXf, dest(d)))
            prev = {"IDf": IDf, "IDl": IDl, "EXf": EXf, "EXl": EXl, "redirect": r["taken"], "ecall_wait_at": ecall_wait_at}
            n += 1
            if r["exit"] is not None:
                self.exit = r["exit"]
                self.exit_cycle = WB
                return
            pc = r["npc"]

    def final_regs(self):
        return [self.latest(i) for i in range(32)]
