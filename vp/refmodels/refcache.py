"""R3 flat memory + R4 tag-only reference cache.

RefCache stores no data: transparency is judged against the flat memory (R3), never against a
second cache implementation.  It only answers hit/miss and which tags are resident per set."""
from .policies import make_policy

M32 = 0xFFFFFFFF


class FlatMem:
    """R3: byte dict, little endian; optional address modulo; valid range [lo, hi)."""

    def __init__(self, lo=1 << 14, hi=1 << 32, modulo=1 << 32, cell_bits=8):
        self.lo, self.hi, self.modulo, self.cell_bits = lo, hi, modulo, cell_bits
        self.b = {}

    def norm(self, a):
        return a % self.modulo if self.modulo else a

    def valid(self, a):
        a = self.norm(a)
        return self.lo <= a < self.hi

    def read(self, a, n):
        v = 0
        for i in range(n):
            v |= self.b.get(self.norm(a + i), 0) << (self.cell_bits * i)
        return v

    def write(self, a, n, v):
        mask = (1 << self.cell_bits) - 1
        for i in range(n):
            self.b[self.norm(a + i)] = (v >> (self.cell_bits * i)) & mask


class RefCache:
    def __init__(self, ib, bb, assoc, policy, wt):
        self.ib, self.bb, self.assoc, self.policy, self.wt = ib, bb, assoc, policy, wt
        self.sets = [{"tags": [None] * assoc, "pol": make_policy(policy, assoc)} for _ in range(1 << ib)]
        self.hits = 0
        self.accesses = 0
        self.last_hit = False
        self.evictions = 0

    def split(self, addr):
        addr &= M32
        blk = addr >> (2 + self.bb)
        return blk & ((1 << self.ib) - 1), blk >> self.ib

    def block_base(self, addr):
        return ((addr & M32) >> (2 + self.bb)) << (2 + self.bb)

    def access(self, addr, is_write, counted=True):
        """returns (hit, evicted_block_base|None)"""
        idx, tag = self.split(addr)
        st = self.sets[idx]
        ev = None
        if tag in st["tags"]:
            st["pol"].access(st["tags"].index(tag))
            hit = True
        else:
            hit = False
            if not (is_write and self.wt):  # write-through = no write allocate
                v = st["pol"].victim()
                if st["tags"][v] is not None:
                    ev = ((st["tags"][v] << self.ib) | idx) << (2 + self.bb)
                    self.evictions += 1
                st["tags"][v] = tag
                st["pol"].access(v)
        if counted:
            self.accesses += 1
            self.hits += int(hit)
            self.last_hit = hit
        return hit, ev

    def resident(self, addr):
        idx, tag = self.split(addr)
        return tag in self.sets[idx]["tags"]

    def resident_tags(self):
        """per set: list (by way) of resident tags or None"""
        return [list(s["tags"]) for s in self.sets]
