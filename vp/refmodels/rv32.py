"""R1 - sequential RV32IM reference semantics + documented ecall table.

Plain Python ints / dicts only.  Shares no code with /repo: it only reads the *fields* of
instruction descriptions (mnemonic, rd, rs1, rs2, imm).  Written from the RISC-V unprivileged
specification and the simulator's help page (ecall table).
"""
import struct

M32 = 0xFFFFFFFF
DATA_MIN = 1 << 14  # first valid data address (settings: memory_address_min_bytes)


def s32(x):
    x &= M32
    return x - (1 << 32) if x & 0x80000000 else x


def sext(v, bits):
    v &= (1 << bits) - 1
    return v - (1 << bits) if v >> (bits - 1) else v


class Fault(Exception):
    def __init__(self, kind, addr=None):
        Exception.__init__(self, kind, addr)
        self.kind = kind
        self.addr = addr


class RefMem:
    """byte dict, little endian, addresses modulo 2^32, valid range [DATA_MIN, 2^32)."""

    def __init__(self, init=None, lo=DATA_MIN):
        self.b = {int(k): int(v) for k, v in (init or {}).items()}
        self.lo = lo  # (0: a caller-supplied data memory whose valid range is the whole address space)

    def _chk(self, a):
        a &= M32
        if a < self.lo:
            raise Fault("addr", a)
        return a

    def rd(self, a, n):
        v = 0
        for i in range(n):
            v |= self.b.get(self._chk(a + i), 0) << (8 * i)
        return v

    def wr(self, a, n, v):
        # all-or-nothing is NOT promised by the property (DESIGN 5-r2): write byte by byte
        for i in range(n):
            self.b[self._chk(a + i)] = (v >> (8 * i)) & 0xFF

    def nonzero(self):
        return {a: v for a, v in self.b.items() if v}


def decode(ins):
    """repo instruction object -> plain dict (only reads fields)."""
    d = {"m": ins.mnemonic}
    for f in ("rd", "rs1", "rs2", "imm"):
        if hasattr(ins, f):
            d[f] = getattr(ins, f)
    return d


def _div(a, b):
    a, b = s32(a), s32(b)
    if b == 0:
        return -1
    q = abs(a) // abs(b)
    return -q if (a < 0) != (b < 0) else q


def _rem(a, b):
    sa, sb = s32(a), s32(b)
    if sb == 0:
        return a
    return sa - _div(a, b) * sb


R3 = {
    "add": lambda a, b: a + b,
    "sub": lambda a, b: a - b,
    "sll": lambda a, b: a << (b & 31),
    "slt": lambda a, b: int(s32(a) < s32(b)),
    "sltu": lambda a, b: int(a < b),
    "xor": lambda a, b: a ^ b,
    "srl": lambda a, b: a >> (b & 31),
    "sra": lambda a, b: s32(a) >> (b & 31),
    "or": lambda a, b: a | b,
    "and": lambda a, b: a & b,
    "mul": lambda a, b: a * b,
    "mulh": lambda a, b: (s32(a) * s32(b)) >> 32,
    "mulhu": lambda a, b: (a * b) >> 32,
    "mulhsu": lambda a, b: (s32(a) * b) >> 32,
    "div": _div,
    "divu": lambda a, b: M32 if b == 0 else a // b,
    "rem": _rem,
    "remu": lambda a, b: a if b == 0 else a % b,
}
IOPS = {"addi": "add", "slti": "slt", "sltiu": "sltu", "xori": "xor", "ori": "or", "andi": "and"}
SHOPS = {"slli": "sll", "srli": "srl", "srai": "sra"}
LOADS = {"lb": (1, True), "lh": (2, True), "lw": (4, False), "lbu": (1, False), "lhu": (2, False)}
STORES = {"sb": 1, "sh": 2, "sw": 4}
BR = {
    "beq": lambda a, b: a == b,
    "bne": lambda a, b: a != b,
    "blt": lambda a, b: s32(a) < s32(b),
    "bge": lambda a, b: s32(a) >= s32(b),
    "bltu": lambda a, b: a < b,
    "bgeu": lambda a, b: a >= b,
}
ALL_MNEMONICS = sorted(set(R3) | set(IOPS) | set(SHOPS) | set(LOADS) | set(STORES) | set(BR) | {"lui", "auipc", "jal", "jalr", "ecall"})


def srcs(d):
    m = d["m"]
    if m in R3 or m in BR or m in STORES:
        return (d["rs1"], d["rs2"])
    if m in IOPS or m in SHOPS or m in LOADS or m == "jalr":
        return (d["rs1"],)
    return ()


def dest(d):
    m = d["m"]
    if m in R3 or m in IOPS or m in SHOPS or m in LOADS or m in ("jalr", "jal", "lui", "auipc"):
        return d["rd"]
    return None


def float_str(a0):
    return str(struct.unpack("<f", struct.pack("<I", a0 & M32))[0])


def ecall_effect(a7, a0, mem):
    """documented ecall table -> ('out', str) | ('exit', code); raises Fault."""
    if a7 == 1:
        return ("out", str(s32(a0)))
    if a7 == 2:
        return ("out", float_str(a0))
    if a7 == 4:
        s = []
        a = a0
        while True:
            c = mem.rd(a, 1)
            if c == 0:
                break
            s.append(chr(c & 0x7F))
            a += 1
        return ("out", "".join(s))
    if a7 == 11:
        return ("out", chr(a0 & 0x7F))
    if a7 == 34:
        return ("out", "0x%X" % a0)
    if a7 == 35:
        return ("out", "0b" + format(a0, "b"))
    if a7 == 36:
        return ("out", str(a0))
    if a7 == 10:
        return ("exit", 0)
    if a7 == 93:
        return ("exit", a0)
    raise Fault("ecall", a7)


def execute(d, pc, ops, mem, regread):
    """Semantics of one instruction given operand values `ops` (tuple matching srcs(d)).
    regread(reg) is used ONLY by ecall.  Memory side effects are performed on `mem`.
    Returns dict(wr=(rd,val)|None, npc, mem=('r'|'w',addr,n[,val])|None, out, exit, taken, kind)."""
    m = d["m"]
    r = {"wr": None, "npc": pc + 4, "out": None, "exit": None, "taken": False, "kind": "alu", "mem": None}
    if m in R3:
        r["wr"] = (d["rd"], R3[m](ops[0], ops[1]) & M32)
    elif m in IOPS:
        r["wr"] = (d["rd"], R3[IOPS[m]](ops[0], d["imm"] & M32) & M32)
    elif m in SHOPS:
        r["wr"] = (d["rd"], R3[SHOPS[m]](ops[0], d["imm"]) & M32)
    elif m == "lui":
        r["wr"] = (d["rd"], (d["imm"] << 12) & M32)
    elif m == "auipc":
        r["wr"] = (d["rd"], (pc + (d["imm"] << 12)) & M32)
    elif m in LOADS:
        n, sg = LOADS[m]
        a = (ops[0] + d["imm"]) & M32
        r["kind"] = "load"
        r["mem"] = ("r", a, n)
        v = mem.rd(a, n)
        if sg:
            v = sext(v, 8 * n) & M32
        r["wr"] = (d["rd"], v)
    elif m in STORES:
        n = STORES[m]
        a = (ops[0] + d["imm"]) & M32
        v = ops[1] & ((1 << (8 * n)) - 1)
        r["kind"] = "store"
        r["mem"] = ("w", a, n, v)
        mem.wr(a, n, v)
    elif m in BR:
        r["kind"] = "branch"
        if BR[m](ops[0], ops[1]):
            r["npc"] = pc + d["imm"]
            r["taken"] = True
    elif m == "jal":
        r["wr"] = (d["rd"], (pc + 4) & M32)
        r["npc"] = pc + d["imm"]
        r["taken"] = True
        r["kind"] = "jal"
    elif m == "jalr":
        r["wr"] = (d["rd"], (pc + 4) & M32)
        r["npc"] = (ops[0] + d["imm"]) & 0xFFFFFFFE
        r["taken"] = True
        r["kind"] = "jalr"
    elif m == "ecall":
        r["kind"] = "ecall"
        k, v = ecall_effect(regread(17), regread(10), mem)
        if k == "out":
            r["out"] = v
        else:
            r["exit"] = v
    else:
        raise NotImplementedError(m)
    if r["wr"] and r["wr"][0] == 0:
        r["wr"] = None
    return r


def footprint(d, ops):
    """byte addresses (mod 2^32) a load/store touches - used for the faulting-footprint rule."""
    m = d["m"]
    n = LOADS[m][0] if m in LOADS else STORES.get(m)
    if n is None:
        return []
    a = (ops[0] + d["imm"]) & M32
    return [(a + i) & M32 for i in range(n)]


class SeqRef:
    """sequential (single-cycle) reference machine."""

    def __init__(self, prog, regs=None, mem=None, pc=0, data_min=DATA_MIN):
        self.prog = prog  # dict addr -> decoded
        self.x = [0] * 32
        for k, v in (regs or {}).items():
            if int(k):
                self.x[int(k)] = v & M32
        self.mem = RefMem(mem, data_min)
        self.pc = pc
        self.out = ""
        self.exit = None
        self.n = 0
        self.branches = 0
        self.calls = 0
        self.loads = 0
        self.stores = 0
        self.trace = []  # (pc, result)
        self.keep_trace = True

    def done(self):
        return self.exit is not None or self.pc not in self.prog

    def step(self):
        d = self.prog[self.pc]
        ops = tuple(self.x[s] for s in srcs(d))
        r = execute(d, self.pc, ops, self.mem, lambda i: self.x[i])
        if r["wr"]:
            self.x[r["wr"][0]] = r["wr"][1]
        if r["out"] is not None:
            self.out += r["out"]
        if r["exit"] is not None:
            self.exit = r["exit"]
        if r["kind"] == "branch" and r["taken"]:
            self.branches += 1
        if r["kind"] == "jal":
            self.calls += 1
        if r["kind"] == "load":
            self.loads += 1
        if r["kind"] == "store":
            self.stores += 1
        if self.keep_trace:
            self.trace.append((self.pc, r))
        self.pc = r["npc"]
        self.n += 1
        return r

    def run(self, max_steps):
        """returns 'done' | 'bound' | ('fault', pc, kind)"""
        while not self.done():
            if self.n >= max_steps:
                return "bound"
            try:
                self.step()
            except Fault as f:
                return ("fault", self.pc, f.kind)
        return "done"
