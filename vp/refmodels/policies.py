"""R5 - replacement policy references.

LRU: per-block last-access timestamps (victim = oldest; never-accessed blocks first, by index).
PLRU: explicit recursive tree of nodes (no heap-index arithmetic)."""


class RefLRU:
    def __init__(self, assoc):
        self.assoc = assoc
        # never accessed: timestamp = index - assoc (negative, ordered by index)
        self.stamp = [i - assoc for i in range(assoc)]
        self.clock = 0

    def access(self, i):
        self.clock += 1
        self.stamp[i] = self.clock

    def victim(self):
        return min(range(self.assoc), key=lambda i: self.stamp[i])

    def ranks(self):
        """age rank per block: 0 = next to be replaced, higher = more recently used."""
        order = sorted(range(self.assoc), key=lambda i: self.stamp[i])
        r = [0] * self.assoc
        for pos, blk in enumerate(order):
            r[blk] = pos
        return r

    def key(self):
        return tuple(self.ranks())


class _Node:
    __slots__ = ("lo", "hi", "left", "right", "bit")

    def __init__(self, lo, hi):
        self.lo, self.hi = lo, hi  # leaves [lo, hi)
        self.bit = False  # False -> victim search goes left, True -> right
        if hi - lo > 1:
            mid = (lo + hi) // 2
            self.left = _Node(lo, mid)
            self.right = _Node(mid, hi)
        else:
            self.left = self.right = None


class RefPLRU:
    def __init__(self, assoc):
        assert assoc >= 1 and assoc & (assoc - 1) == 0
        self.assoc = assoc
        self.root = _Node(0, assoc)

    def access(self, i):
        n = self.root
        while n.left is not None:
            if i < n.left.hi:  # accessed block is in the left half -> point away (right)
                n.bit = True
                n = n.left
            else:
                n.bit = False
                n = n.right

    def victim(self):
        n = self.root
        while n.left is not None:
            n = n.right if n.bit else n.left
        return n.lo

    def bits_bfs(self):
        """tree bits in breadth-first order (the order of the simulator's displayed tree array)."""
        out, q = [], [self.root]
        while q:
            n = q.pop(0)
            if n.left is not None:
                out.append(n.bit)
                q.append(n.left)
                q.append(n.right)
        return out

    def key(self):
        return tuple(self.bits_bfs())


def make_policy(name, assoc):
    return RefLRU(assoc) if name == "lru" else RefPLRU(assoc)
