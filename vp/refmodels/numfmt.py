"""R8 - checks the four display strings of a value by parsing them back (no formatting code)."""


def check_repr(tup, value, n):
    """returns None if (bin, udec, hex, sdec) all denote value mod 2^n at width n with the documented
    grouping (bin: groups of 8 from the right, hex: groups of 2 from the right), else a message."""
    if not (isinstance(tup, tuple) and len(tup) == 4 and all(isinstance(s, str) for s in tup)):
        return "not a 4-tuple of str: %r" % (tup,)
    b, u, h, s = tup
    want = value % (1 << n)
    swant = want - (1 << n) if want >> (n - 1) else want
    # binary
    bd = b.replace(" ", "")
    if len(bd) != n or any(c not in "01" for c in bd) or int(bd, 2) != want:
        return "bin %r does not denote %d at width %d" % (b, want, n)
    if not _grouped(b, 8):
        return "bin %r grouping" % b
    # hex
    hd = h.replace(" ", "")
    if len(hd) != (n + 3) // 4 or any(c not in "0123456789ABCDEF" for c in hd) or int(hd, 16) != want:
        return "hex %r does not denote %d at width %d" % (h, want, n)
    if not _grouped(h, 2):
        return "hex %r grouping" % h
    if not _plain_dec(u, False) or int(u) != want:
        return "udec %r != %d" % (u, want)
    if not _plain_dec(s, True) or int(s) != swant:
        return "sdec %r != %d" % (s, swant)
    return None


def _plain_dec(s, signed):
    t = s[1:] if signed and s.startswith("-") else s
    return t.isascii() and t.isdigit() and (t == "0" or not t.startswith("0")) and not (s.startswith("-") and t == "0")


def _grouped(s, g):
    parts = s.split(" ")
    if any(p == "" for p in parts):
        return False
    return all(len(p) == g for p in parts[1:]) and 1 <= len(parts[0]) <= g
