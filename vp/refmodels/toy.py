"""R6 - TOY reference machine: 4096 x 16-bit words, 16-bit accumulator, 12-bit pc, 13 opcodes,
opcodes 13..15 = NOP, instruction fetched from memory when executed, 2 cycles per instruction,
stops when the next pc is beyond the last assembled instruction."""

MNEMONICS = ["STO", "LDA", "BRZ", "ADD", "SUB", "OR", "AND", "XOR", "NOT", "INC", "DEC", "ZRO", "NOP"]
ADDRESS_TYPE = set(MNEMONICS[:8])


def decode_word(w):
    op = (w >> 12) & 0xF
    return (MNEMONICS[op] if op < 13 else "NOP"), w & 0xFFF


class RefToy:
    def __init__(self, mem, maxpc, acc=0):
        self.m = {int(a): int(v) & 0xFFFF for a, v in mem.items()}
        self.acc = acc & 0xFFFF
        self.pc = 0  # address of the instruction to execute next
        self.maxpc = maxpc
        self.n = 0
        self.br = 0
        self.done = maxpc < 0
        self.executed_overwritten = 0
        self.written = set()

    def step(self):
        w = self.m.get(self.pc, 0)
        if self.pc in self.written:
            self.executed_overwritten += 1
        op, a = w >> 12, w & 0xFFF
        npc = (self.pc + 1) & 0xFFF
        g = lambda: self.m.get(a, 0)
        if op == 0:
            self.m[a] = self.acc
            self.written.add(a)
        elif op == 1:
            self.acc = g()
        elif op == 2:
            if self.acc == 0:
                npc = a
                self.br += 1
        elif op == 3:
            self.acc = (self.acc + g()) & 0xFFFF
        elif op == 4:
            self.acc = (self.acc - g()) & 0xFFFF
        elif op == 5:
            self.acc |= g()
        elif op == 6:
            self.acc &= g()
        elif op == 7:
            self.acc ^= g()
        elif op == 8:
            self.acc = (~self.acc) & 0xFFFF
        elif op == 9:
            self.acc = (self.acc + 1) & 0xFFFF
        elif op == 10:
            self.acc = (self.acc - 1) & 0xFFFF
        elif op == 11:
            self.acc = 0
        self.n += 1
        self.pc = npc
        if npc > self.maxpc:
            self.done = True
