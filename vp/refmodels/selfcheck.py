"""Spec vectors for the trusted base (run by setup.sh): the reference models must reproduce the values the
RISC-V unprivileged specification / the help pages state literally, independently of the repository."""
from .rv32 import R3, execute, RefMem, ecall_effect, Fault, M32, sext
from .policies import RefLRU, RefPLRU
from .numfmt import check_repr
from .toy import RefToy
from .timed5 import TimedRef


def main():
    I = lambda v: v & M32
    # M extension, table "Semantics for division by zero and division overflow"
    assert R3["div"](I(7), 0) & M32 == M32 and R3["divu"](7, 0) == M32
    assert R3["rem"](I(7), 0) & M32 == 7 and R3["remu"](7, 0) == 7
    assert R3["div"](0x80000000, M32) & M32 == 0x80000000 and R3["rem"](0x80000000, M32) & M32 == 0
    assert R3["div"](I(-7), 2) & M32 == I(-3) and R3["rem"](I(-7), 2) & M32 == I(-1)  # truncation towards zero
    assert R3["div"](7, I(-2)) & M32 == I(-3) and R3["rem"](7, I(-2)) & M32 == 1
    assert R3["mulh"](I(-1), I(-1)) & M32 == 0 and R3["mulhu"](M32, M32) & M32 == 0xFFFFFFFE
    assert R3["mulhsu"](I(-1), M32) & M32 == M32 and R3["mul"](0x10000, 0x10000) & M32 == 0
    assert R3["sra"](0x80000000, 33) & M32 == 0xC0000000 and R3["srl"](0x80000000, 32) == 0x80000000 and R3["sll"](1, 63) & M32 == 0x80000000
    assert R3["slt"](0x80000000, 0) == 1 and R3["sltu"](0x80000000, 0) == 0
    m = RefMem({0x4000: 0x80, 0x4001: 0xFF})
    r = execute({"m": "lh", "rd": 1, "rs1": 2, "imm": 0}, 0, (0x4000,), m, None)
    assert r["wr"] == (1, 0xFFFFFF80)
    r = execute({"m": "lbu", "rd": 1, "rs1": 2, "imm": 1}, 0, (0x4000,), m, None)
    assert r["wr"] == (1, 0xFF)
    r = execute({"m": "jalr", "rd": 1, "rs1": 2, "imm": 5}, 8, (M32,), m, None)
    assert r["npc"] == 4 and r["wr"] == (1, 12)
    r = execute({"m": "sltiu", "rd": 1, "rs1": 2, "imm": -1}, 0, (5,), m, None)
    assert r["wr"] == (1, 1)
    r = execute({"m": "lui", "rd": 1, "imm": 0xFFFFF}, 0, (), m, None)
    assert r["wr"] == (1, 0xFFFFF000)
    r = execute({"m": "addi", "rd": 0, "rs1": 0, "imm": 5}, 0, (0,), m, None)
    assert r["wr"] is None
    try:
        m.rd(0x3FFF, 2)
        assert False
    except Fault:
        pass
    assert ecall_effect(1, M32, m) == ("out", "-1") and ecall_effect(36, M32, m) == ("out", "4294967295")
    assert ecall_effect(34, 255, m) == ("out", "0xFF") and ecall_effect(35, 5, m) == ("out", "0b101") and ecall_effect(11, 65, m) == ("out", "A")
    assert ecall_effect(10, 7, m) == ("exit", 0) and ecall_effect(93, 7, m) == ("exit", 7) and ecall_effect(2, 0x3F800000, m) == ("out", "1.0")
    # policies
    l = RefLRU(4)
    assert l.victim() == 0
    for i in (0, 1, 2, 3, 0):
        l.access(i)
    assert l.victim() == 1 and l.ranks() == [3, 0, 1, 2]
    p = RefPLRU(4)
    p.access(0)
    assert p.victim() == 2
    p.access(2)
    assert p.victim() == 1
    p.access(1)
    assert p.victim() == 3
    # formatter checker
    assert check_repr(("11111111 11111111", "65535", "FF FF", "-1"), -1, 16) is None
    assert check_repr(("1000 00000000", "2048", "8 00", "-2048"), 2048, 12) is None
    assert check_repr(("1000 00000000", "2048", "8 00", "2048"), 2048, 12) is not None
    # toy
    t = RefToy({0: (3 << 12) | 5, 1: (0 << 12) | 6, 5: 0xFFFF}, 1, acc=2)
    t.step()
    t.step()
    assert t.acc == 1 and t.m[6] == 1 and t.done and t.n == 2
    # documented schedule: n independent instructions take n+4 cycles; a distance-1 RAW costs 2 bubbles
    P = {0: {"m": "addi", "rd": 1, "rs1": 0, "imm": 1}, 4: {"m": "addi", "rd": 2, "rs1": 0, "imm": 1}, 8: {"m": "addi", "rd": 3, "rs1": 0, "imm": 1}}
    r = TimedRef(P)
    r.run()
    assert r.cycles == 7
    P[4] = {"m": "addi", "rd": 2, "rs1": 1, "imm": 1}
    r = TimedRef(P)
    r.run()
    assert r.cycles == 9 and r.final_regs()[2] == 2
    r = TimedRef(P, interlock=False)
    r.run()
    assert r.cycles == 7 and r.final_regs()[2] == 1  # stale read without interlock
    print("reference models: spec vectors ok")


if __name__ == "__main__":
    main()
