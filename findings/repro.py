"""Reproducers for the genuine defects found on the pinned tree (see DESIGN.md section 6).
Run:  PYTHONPATH=/repo /venv/bin/python findings/repro.py
Prints one line per finding: REPRODUCED (defect present) or ABSENT (fixed).
With arguments (e.g. F1) it acts as a demonstration: exit 1 + FAIL if that defect is present, else PASS."""
import fixedint
from architecture_simulator.simulation.riscv_simulation import RiscvSimulation
from architecture_simulator.uarch.memory.memory import Memory, AddressingType
from architecture_simulator.uarch.memory.write_through_memory_system import WriteThroughMemorySystem
from architecture_simulator.uarch.memory.write_back_memory_system import WriteBackMemorySystem
from architecture_simulator.uarch.riscv.riscv_performance_metrics import RiscvPerformanceMetrics
from architecture_simulator.isa.parser_exceptions import ParserException


def f1():
    res = []
    for mode in ("single_stage_pipeline", "five_stage_pipeline"):
        s = RiscvSimulation(mode=mode)
        s.load_program("jalr x1, x5, 5\naddi x2, x0, 7\naddi x3, x0, 9")
        s.state.register_file.registers[5] = fixedint.UInt32(0xFFFFFFFF)
        n = 0
        while not s.is_done() and n < 50:
            s.step(); n += 1
        res.append([int(x) for x in s.state.register_file.registers[:4]])
    return res[0] != res[1], res


def f2():
    m = WriteThroughMemorySystem(Memory(AddressingType.BYTE, 32, True, range(2**14, 2**32)), 1, 0, 1, RiscvPerformanceMetrics(), 0, "lru")
    m.write_word(0x4004, fixedint.UInt32(0x11111111))
    m.read_word(0x4004)  # word B resident
    try:
        m.write_halfword(0x4003, fixedint.UInt16(0xBEEF))  # crosses into word B, word A not resident
    except Exception as e:
        return False, repr(e)
    return True, (hex(int(m.read_word(0x4004))), hex(int(m.memory.read_word(0x4004))))


def f3():
    try:
        RiscvSimulation().load_program("loop: li x1, 100000\nbeq x0, x0, loop")
    except ParserException as e:
        return True, repr(e)
    return False, None


def f4():
    s = RiscvSimulation()
    s.load_program(".data\nbuf: .zero 4\nnxt: .word 1\n.text\nla x1, buf[1]\nla x2, nxt")
    s.run()
    r = [int(x) for x in s.state.register_file.registers[1:3]]
    return r[0] != 0x4004, [hex(x) for x in r]


def f5():
    try:
        RiscvSimulation().load_program("addi x1, x0, 010")
    except ParserException as e:
        return False, repr(e)
    except ValueError as e:
        return True, repr(e)
    return False, "accepted"


def f6():
    from architecture_simulator.simulation.toy_simulation import ToySimulation

    s = ToySimulation()
    s.load_program("INC\nDEC")
    s.first_cycle_step()  # abandoned in the middle of the instruction
    s.load_program("INC\nINC")
    try:
        s.step()
    except Exception as e:
        return True, repr(e)
    return False, "step() on the freshly loaded program works"


def f7():
    try:
        RiscvSimulation().load_program("nop\n\u017fub x1, x2, x3")
    except ParserException as e:
        return False, repr(e)
    except KeyError as e:
        return True, repr(e)
    return False, "accepted"


def k3():
    try:
        RiscvSimulation().load_program("addi x1, x0, " + "1" * 5000)
    except ParserException as e:
        return False, repr(e)
    except ValueError as e:
        return True, repr(e)[:120]
    return False, "accepted"


def k1():
    m = WriteBackMemorySystem(Memory(AddressingType.BYTE, 32, True, range(2**14, 2**32)), 0, 13, 1, RiscvPerformanceMetrics(), 0, "lru")
    try:
        m.read_word(0x4000)
    except Exception as e:
        return True, repr(e)
    return False, None


ALL = {"F1": f1, "F2": f2, "F3": f3, "F4": f4, "F5": f5, "F6": f6, "F7": f7, "K1": k1, "K3": k3}

if __name__ == "__main__":
    import sys

    which = sys.argv[1:] or list(ALL)
    rc = 0
    for name in which:
        bad, info = ALL[name]()
        print(name, "REPRODUCED" if bad else "ABSENT", info)
        if bad and len(sys.argv) > 1:
            print("FAIL: defect %s is present" % name)
            rc = 1
    if len(sys.argv) > 1 and rc == 0:
        print("PASS")
    sys.exit(rc)
